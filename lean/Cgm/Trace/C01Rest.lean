import Cgm.Gen.C01
/-! # T obligations for C01, remaining kernels: `Matrix2::new`, `Matrix3::new`, `Matrix4::new`
(arguments column by column: `c0r0, c0r1, …`) -/
set_option linter.unusedSectionVars false
namespace Cg.Trace.C01Rest
open Cg Cg.Gen.C01
variable {K : Type} [Field K] [Transc K] [FRem K] [Lits K]

theorem t_m2_new (a b c d : K) : t_m2_new (envL [a, b, c, d]) = .okS (M2.new a b c d).toList := by
  simp [M2.new]; tr_auto
theorem t_m3_new (a b c d e f g h i : K) :
    t_m3_new (envL [a, b, c, d, e, f, g, h, i]) = .okS (M3.new a b c d e f g h i).toList := by
  simp [M3.new]; tr_auto
theorem t_m4_new (a b c d e f g h i j k l m n o p : K) :
    t_m4_new (envL [a, b, c, d, e, f, g, h, i, j, k, l, m, n, o, p]) =
      .okS (M4.new a b c d e f g h i j k l m n o p).toList := by
  simp [M4.new]; tr_auto
/-- `new` fills the columns in argument order (not vacuous: the flat list is the argument list) -/
example (a b c d : K) : (M2.new a b c d).toList = [a, b, c, d] := by simp [M2.new, M2.toList, V2.toList]
end Cg.Trace.C01Rest
