import Cgm.Gen.C17
import Cgm.Model.Assign
/-!
# T obligations for C17: the operand forms of the operators of vectors

GENERATED once by `tools/gen_c17_forms.py` from `lib/cgv/sigs.py` (`FORM_FAMILIES`) / `lib/cgv/tracetab_ops2.py`; kept as an
ordinary source file.

Each kernel `t_<t>_<op>_<form>` was traced from the `impl` the call-site spelling selects (`rv` = `&a op b`, `vr` = `a op &b`,
`rr` = `&a op &b`, `r` = `-&a`, `asg` = `a op= b`) on symbolic operands.  For the reference forms the obligation says the
kernel is the model's by-value operator (the model has one function per operator); for `asg` it says the kernel is the
field-by-field definition of `Cgm/Model/Assign.lean`, which `Cgm/Props/C17c.lean` proves equal to the by-value operator
(composed in `Cgm/E2E/C17b.lean`).
-/
set_option linter.unusedSectionVars false
set_option linter.unusedSimpArgs false
set_option linter.unusedVariables false
namespace Cg.Trace.C17Ops
open Cg Cg.Gen.C17
variable {K : Type} [Field K] [Transc K] [FRem K] [Lits K]

/-- unfold the kernel and the model operator (for `asg`: the chain of single-field updates), then field identities -/
local macro "tr_form" : tactic =>
  `(tactic| first
    | (tr_auto; done)
    | (simp [V1.addAssign, V1.subAssign, V1.mulAssignS, V1.divAssignS, V1.remAssignS, V1.rem, V2.addAssign, V2.subAssign, V2.mulAssignS, V2.divAssignS, V2.remAssignS, V2.rem, V3.addAssign, V3.subAssign, V3.mulAssignS, V3.divAssignS, V3.remAssignS, V3.rem, V4.addAssign, V4.subAssign, V4.mulAssignS, V4.divAssignS, V4.remAssignS, V4.rem, envL, Tr.okS,
        V1.toList, V2.toList, V3.toList, V4.toList, P1.toList, P2.toList, P3.toList, M2.toList, M3.toList, M4.toList, Quat.toList] <;>
       (repeat' apply And.intro) <;> first | ring1 | (ring_nf; done)))

theorem t_v1_add_rv (u v : V1 K) :
    t_v1_add_rv (envL (u.toList ++ v.toList)) = .okS (u + v).toList := by
  tr_form
theorem t_v1_add_vr (u v : V1 K) :
    t_v1_add_vr (envL (u.toList ++ v.toList)) = .okS (u + v).toList := by
  tr_form
theorem t_v1_add_rr (u v : V1 K) :
    t_v1_add_rr (envL (u.toList ++ v.toList)) = .okS (u + v).toList := by
  tr_form
theorem t_v1_add_asg (u v : V1 K) :
    t_v1_add_asg (envL (u.toList ++ v.toList)) = .okS (u.addAssign v).toList := by
  tr_form
theorem t_v2_add_rv (u v : V2 K) :
    t_v2_add_rv (envL (u.toList ++ v.toList)) = .okS (u + v).toList := by
  tr_form
theorem t_v2_add_vr (u v : V2 K) :
    t_v2_add_vr (envL (u.toList ++ v.toList)) = .okS (u + v).toList := by
  tr_form
theorem t_v2_add_rr (u v : V2 K) :
    t_v2_add_rr (envL (u.toList ++ v.toList)) = .okS (u + v).toList := by
  tr_form
theorem t_v2_add_asg (u v : V2 K) :
    t_v2_add_asg (envL (u.toList ++ v.toList)) = .okS (u.addAssign v).toList := by
  tr_form
theorem t_v3_add_rv (u v : V3 K) :
    t_v3_add_rv (envL (u.toList ++ v.toList)) = .okS (u + v).toList := by
  tr_form
theorem t_v3_add_vr (u v : V3 K) :
    t_v3_add_vr (envL (u.toList ++ v.toList)) = .okS (u + v).toList := by
  tr_form
theorem t_v3_add_rr (u v : V3 K) :
    t_v3_add_rr (envL (u.toList ++ v.toList)) = .okS (u + v).toList := by
  tr_form
theorem t_v3_add_asg (u v : V3 K) :
    t_v3_add_asg (envL (u.toList ++ v.toList)) = .okS (u.addAssign v).toList := by
  tr_form
theorem t_v4_add_rv (u v : V4 K) :
    t_v4_add_rv (envL (u.toList ++ v.toList)) = .okS (u + v).toList := by
  tr_form
theorem t_v4_add_vr (u v : V4 K) :
    t_v4_add_vr (envL (u.toList ++ v.toList)) = .okS (u + v).toList := by
  tr_form
theorem t_v4_add_rr (u v : V4 K) :
    t_v4_add_rr (envL (u.toList ++ v.toList)) = .okS (u + v).toList := by
  tr_form
theorem t_v4_add_asg (u v : V4 K) :
    t_v4_add_asg (envL (u.toList ++ v.toList)) = .okS (u.addAssign v).toList := by
  tr_form
theorem t_v1_sub_rv (u v : V1 K) :
    t_v1_sub_rv (envL (u.toList ++ v.toList)) = .okS (u - v).toList := by
  tr_form
theorem t_v1_sub_vr (u v : V1 K) :
    t_v1_sub_vr (envL (u.toList ++ v.toList)) = .okS (u - v).toList := by
  tr_form
theorem t_v1_sub_rr (u v : V1 K) :
    t_v1_sub_rr (envL (u.toList ++ v.toList)) = .okS (u - v).toList := by
  tr_form
theorem t_v1_sub_asg (u v : V1 K) :
    t_v1_sub_asg (envL (u.toList ++ v.toList)) = .okS (u.subAssign v).toList := by
  tr_form
theorem t_v2_sub_rv (u v : V2 K) :
    t_v2_sub_rv (envL (u.toList ++ v.toList)) = .okS (u - v).toList := by
  tr_form
theorem t_v2_sub_vr (u v : V2 K) :
    t_v2_sub_vr (envL (u.toList ++ v.toList)) = .okS (u - v).toList := by
  tr_form
theorem t_v2_sub_rr (u v : V2 K) :
    t_v2_sub_rr (envL (u.toList ++ v.toList)) = .okS (u - v).toList := by
  tr_form
theorem t_v2_sub_asg (u v : V2 K) :
    t_v2_sub_asg (envL (u.toList ++ v.toList)) = .okS (u.subAssign v).toList := by
  tr_form
theorem t_v3_sub_rv (u v : V3 K) :
    t_v3_sub_rv (envL (u.toList ++ v.toList)) = .okS (u - v).toList := by
  tr_form
theorem t_v3_sub_vr (u v : V3 K) :
    t_v3_sub_vr (envL (u.toList ++ v.toList)) = .okS (u - v).toList := by
  tr_form
theorem t_v3_sub_rr (u v : V3 K) :
    t_v3_sub_rr (envL (u.toList ++ v.toList)) = .okS (u - v).toList := by
  tr_form
theorem t_v3_sub_asg (u v : V3 K) :
    t_v3_sub_asg (envL (u.toList ++ v.toList)) = .okS (u.subAssign v).toList := by
  tr_form
theorem t_v4_sub_rv (u v : V4 K) :
    t_v4_sub_rv (envL (u.toList ++ v.toList)) = .okS (u - v).toList := by
  tr_form
theorem t_v4_sub_vr (u v : V4 K) :
    t_v4_sub_vr (envL (u.toList ++ v.toList)) = .okS (u - v).toList := by
  tr_form
theorem t_v4_sub_rr (u v : V4 K) :
    t_v4_sub_rr (envL (u.toList ++ v.toList)) = .okS (u - v).toList := by
  tr_form
theorem t_v4_sub_asg (u v : V4 K) :
    t_v4_sub_asg (envL (u.toList ++ v.toList)) = .okS (u.subAssign v).toList := by
  tr_form
theorem t_v1_mul_rv (u : V1 K) (v : K) :
    t_v1_mul_rv (envL (u.toList ++ [v])) = .okS (u * v).toList := by
  tr_form
theorem t_v1_mul_asg (u : V1 K) (v : K) :
    t_v1_mul_asg (envL (u.toList ++ [v])) = .okS (u.mulAssignS v).toList := by
  tr_form
theorem t_v2_mul_rv (u : V2 K) (v : K) :
    t_v2_mul_rv (envL (u.toList ++ [v])) = .okS (u * v).toList := by
  tr_form
theorem t_v2_mul_asg (u : V2 K) (v : K) :
    t_v2_mul_asg (envL (u.toList ++ [v])) = .okS (u.mulAssignS v).toList := by
  tr_form
theorem t_v3_mul_rv (u : V3 K) (v : K) :
    t_v3_mul_rv (envL (u.toList ++ [v])) = .okS (u * v).toList := by
  tr_form
theorem t_v3_mul_asg (u : V3 K) (v : K) :
    t_v3_mul_asg (envL (u.toList ++ [v])) = .okS (u.mulAssignS v).toList := by
  tr_form
theorem t_v4_mul_rv (u : V4 K) (v : K) :
    t_v4_mul_rv (envL (u.toList ++ [v])) = .okS (u * v).toList := by
  tr_form
theorem t_v4_mul_asg (u : V4 K) (v : K) :
    t_v4_mul_asg (envL (u.toList ++ [v])) = .okS (u.mulAssignS v).toList := by
  tr_form
theorem t_v1_div_rv (u : V1 K) (v : K) :
    t_v1_div_rv (envL (u.toList ++ [v])) = .okS (u / v).toList := by
  tr_form
theorem t_v1_div_asg (u : V1 K) (v : K) :
    t_v1_div_asg (envL (u.toList ++ [v])) = .okS (u.divAssignS v).toList := by
  tr_form
theorem t_v2_div_rv (u : V2 K) (v : K) :
    t_v2_div_rv (envL (u.toList ++ [v])) = .okS (u / v).toList := by
  tr_form
theorem t_v2_div_asg (u : V2 K) (v : K) :
    t_v2_div_asg (envL (u.toList ++ [v])) = .okS (u.divAssignS v).toList := by
  tr_form
theorem t_v3_div_rv (u : V3 K) (v : K) :
    t_v3_div_rv (envL (u.toList ++ [v])) = .okS (u / v).toList := by
  tr_form
theorem t_v3_div_asg (u : V3 K) (v : K) :
    t_v3_div_asg (envL (u.toList ++ [v])) = .okS (u.divAssignS v).toList := by
  tr_form
theorem t_v4_div_rv (u : V4 K) (v : K) :
    t_v4_div_rv (envL (u.toList ++ [v])) = .okS (u / v).toList := by
  tr_form
theorem t_v4_div_asg (u : V4 K) (v : K) :
    t_v4_div_asg (envL (u.toList ++ [v])) = .okS (u.divAssignS v).toList := by
  tr_form
theorem t_v1_rem_rv (u : V1 K) (v : K) :
    t_v1_rem_rv (envL (u.toList ++ [v])) = .okS (u.rem v).toList := by
  tr_form
theorem t_v1_rem_asg (u : V1 K) (v : K) :
    t_v1_rem_asg (envL (u.toList ++ [v])) = .okS (u.remAssignS v).toList := by
  tr_form
theorem t_v2_rem_rv (u : V2 K) (v : K) :
    t_v2_rem_rv (envL (u.toList ++ [v])) = .okS (u.rem v).toList := by
  tr_form
theorem t_v2_rem_asg (u : V2 K) (v : K) :
    t_v2_rem_asg (envL (u.toList ++ [v])) = .okS (u.remAssignS v).toList := by
  tr_form
theorem t_v3_rem_rv (u : V3 K) (v : K) :
    t_v3_rem_rv (envL (u.toList ++ [v])) = .okS (u.rem v).toList := by
  tr_form
theorem t_v3_rem_asg (u : V3 K) (v : K) :
    t_v3_rem_asg (envL (u.toList ++ [v])) = .okS (u.remAssignS v).toList := by
  tr_form
theorem t_v4_rem_rv (u : V4 K) (v : K) :
    t_v4_rem_rv (envL (u.toList ++ [v])) = .okS (u.rem v).toList := by
  tr_form
theorem t_v4_rem_asg (u : V4 K) (v : K) :
    t_v4_rem_asg (envL (u.toList ++ [v])) = .okS (u.remAssignS v).toList := by
  tr_form
end Cg.Trace.C17Ops
