import Cgm.Gen.C18
import Cgm.Trace.C18Rest
import Cgm.Model.Book4
/-!
# T obligations for C18: the default-tolerance macro forms `abs_diff_eq!(a, b)`, `relative_eq!(a, b)`, `ulps_eq!(a, b)`

The tolerances are the TYPE's defaults as the code obtained them: the recording scalar's `default_epsilon` /
`default_max_relative` (`eps52 = 2^-52`) and `default_max_ulps` (`4`) for vectors, points, the quaternion and the
angles; for the matrices the epsilon is the literal `cast(1.0e-6f64)` (`Lits.matEps`), NOT the scalar's, while
`max_relative` / `max_ulps` are the scalar's

GENERATED once by `tools/gen_ops_obl.py` from the kernel table `lib/cgv/tracetab_ops.py`; kept as an ordinary source file.

Each kernel was traced from the real `abs_diff_eq` / `relative_eq` / `ulps_eq` of the type at the recording scalar, whose own
relations record ONE comparison each (`G.absDiff a b eps r`, `G.rel a b eps max_rel r`, `G.ulps a b eps max_ulps r`).  The
`&&` chain over the components short-circuits: `_true` is the path on which every component pair is within tolerance,
`_false_k` the path on which the pairs `0 .. k-1` (flattening order) are and pair `k` is not.  Each obligation says: under
that path condition the kernel returns the model's boolean (`Book4.lean`) after exactly the comparisons listed -- the
component pairs in order, every one with the tolerance ARGUMENTS the call was given -- with the outcomes recorded, and
writes out the boolean.  `max_ulps` is a literal of the traced kernel (`4`).
-/
set_option linter.unusedSectionVars false
set_option linter.unusedSimpArgs false
set_option linter.unusedVariables false
namespace Cg.Trace.C18OpsD
open Cg Cg.Gen.C18 Cg.Trace.C18Rest
variable {K : Type} [Field K] [LinearOrder K] [Approx K] [Transc K] [FRem K] [Lits K]

/-! ## `v1` -/
theorem t_v1_abs_diff_eq_d_true (a b : V1 K) (h0 : Approx.absDiffEq a.x b.x eps52 = true) :
    t_v1_abs_diff_eq_d_true (envL (a.toList ++ b.toList)) =
      okB (V1.absDiffEq a b eps52) [.absDiff a.x b.x eps52 true] ∧
      V1.absDiffEq a b eps52 = true := by
  try simp only [eps52, one_div] at *
  constructor <;> simp [V1.absDiffEq, V1.toList, okB, eps52, envL, *]

theorem t_v1_abs_diff_eq_d_false_0 (a b : V1 K) (h0 : Approx.absDiffEq a.x b.x eps52 = false) :
    t_v1_abs_diff_eq_d_false_0 (envL (a.toList ++ b.toList)) =
      okB (V1.absDiffEq a b eps52) [.absDiff a.x b.x eps52 false] ∧
      V1.absDiffEq a b eps52 = false := by
  try simp only [eps52, one_div] at *
  constructor <;> simp [V1.absDiffEq, V1.toList, okB, eps52, envL, *]

theorem t_v1_relative_eq_d_true (a b : V1 K) (h0 : Approx.relEq a.x b.x eps52 eps52 = true) :
    t_v1_relative_eq_d_true (envL (a.toList ++ b.toList)) =
      okB (V1.relEq a b eps52 eps52) [.rel a.x b.x eps52 eps52 true] ∧
      V1.relEq a b eps52 eps52 = true := by
  try simp only [eps52, one_div] at *
  constructor <;> simp [V1.relEq, V1.toList, okB, eps52, envL, *]

theorem t_v1_relative_eq_d_false_0 (a b : V1 K) (h0 : Approx.relEq a.x b.x eps52 eps52 = false) :
    t_v1_relative_eq_d_false_0 (envL (a.toList ++ b.toList)) =
      okB (V1.relEq a b eps52 eps52) [.rel a.x b.x eps52 eps52 false] ∧
      V1.relEq a b eps52 eps52 = false := by
  try simp only [eps52, one_div] at *
  constructor <;> simp [V1.relEq, V1.toList, okB, eps52, envL, *]

theorem t_v1_ulps_eq_d_true (a b : V1 K) (h0 : Approx.ulpsEq a.x b.x eps52 4 = true) :
    t_v1_ulps_eq_d_true (envL (a.toList ++ b.toList)) =
      okB (V1.ulpsEq a b eps52 4) [.ulps a.x b.x eps52 4 true] ∧
      V1.ulpsEq a b eps52 4 = true := by
  try simp only [eps52, one_div] at *
  constructor <;> simp [V1.ulpsEq, V1.toList, okB, eps52, envL, *]

theorem t_v1_ulps_eq_d_false_0 (a b : V1 K) (h0 : Approx.ulpsEq a.x b.x eps52 4 = false) :
    t_v1_ulps_eq_d_false_0 (envL (a.toList ++ b.toList)) =
      okB (V1.ulpsEq a b eps52 4) [.ulps a.x b.x eps52 4 false] ∧
      V1.ulpsEq a b eps52 4 = false := by
  try simp only [eps52, one_div] at *
  constructor <;> simp [V1.ulpsEq, V1.toList, okB, eps52, envL, *]

/-! ## `v2` -/
theorem t_v2_abs_diff_eq_d_true (a b : V2 K) (h0 : Approx.absDiffEq a.x b.x eps52 = true) (h1 : Approx.absDiffEq a.y b.y eps52 = true) :
    t_v2_abs_diff_eq_d_true (envL (a.toList ++ b.toList)) =
      okB (V2.absDiffEq a b eps52) [.absDiff a.x b.x eps52 true, .absDiff a.y b.y eps52 true] ∧
      V2.absDiffEq a b eps52 = true := by
  try simp only [eps52, one_div] at *
  constructor <;> simp [V2.absDiffEq, V2.toList, okB, eps52, envL, *]

theorem t_v2_abs_diff_eq_d_false_0 (a b : V2 K) (h0 : Approx.absDiffEq a.x b.x eps52 = false) :
    t_v2_abs_diff_eq_d_false_0 (envL (a.toList ++ b.toList)) =
      okB (V2.absDiffEq a b eps52) [.absDiff a.x b.x eps52 false] ∧
      V2.absDiffEq a b eps52 = false := by
  try simp only [eps52, one_div] at *
  constructor <;> simp [V2.absDiffEq, V2.toList, okB, eps52, envL, *]

theorem t_v2_relative_eq_d_true (a b : V2 K) (h0 : Approx.relEq a.x b.x eps52 eps52 = true) (h1 : Approx.relEq a.y b.y eps52 eps52 = true) :
    t_v2_relative_eq_d_true (envL (a.toList ++ b.toList)) =
      okB (V2.relEq a b eps52 eps52) [.rel a.x b.x eps52 eps52 true, .rel a.y b.y eps52 eps52 true] ∧
      V2.relEq a b eps52 eps52 = true := by
  try simp only [eps52, one_div] at *
  constructor <;> simp [V2.relEq, V2.toList, okB, eps52, envL, *]

theorem t_v2_relative_eq_d_false_0 (a b : V2 K) (h0 : Approx.relEq a.x b.x eps52 eps52 = false) :
    t_v2_relative_eq_d_false_0 (envL (a.toList ++ b.toList)) =
      okB (V2.relEq a b eps52 eps52) [.rel a.x b.x eps52 eps52 false] ∧
      V2.relEq a b eps52 eps52 = false := by
  try simp only [eps52, one_div] at *
  constructor <;> simp [V2.relEq, V2.toList, okB, eps52, envL, *]

theorem t_v2_ulps_eq_d_true (a b : V2 K) (h0 : Approx.ulpsEq a.x b.x eps52 4 = true) (h1 : Approx.ulpsEq a.y b.y eps52 4 = true) :
    t_v2_ulps_eq_d_true (envL (a.toList ++ b.toList)) =
      okB (V2.ulpsEq a b eps52 4) [.ulps a.x b.x eps52 4 true, .ulps a.y b.y eps52 4 true] ∧
      V2.ulpsEq a b eps52 4 = true := by
  try simp only [eps52, one_div] at *
  constructor <;> simp [V2.ulpsEq, V2.toList, okB, eps52, envL, *]

theorem t_v2_ulps_eq_d_false_0 (a b : V2 K) (h0 : Approx.ulpsEq a.x b.x eps52 4 = false) :
    t_v2_ulps_eq_d_false_0 (envL (a.toList ++ b.toList)) =
      okB (V2.ulpsEq a b eps52 4) [.ulps a.x b.x eps52 4 false] ∧
      V2.ulpsEq a b eps52 4 = false := by
  try simp only [eps52, one_div] at *
  constructor <;> simp [V2.ulpsEq, V2.toList, okB, eps52, envL, *]

/-! ## `v3` -/
theorem t_v3_abs_diff_eq_d_true (a b : V3 K) (h0 : Approx.absDiffEq a.x b.x eps52 = true) (h1 : Approx.absDiffEq a.y b.y eps52 = true) (h2 : Approx.absDiffEq a.z b.z eps52 = true) :
    t_v3_abs_diff_eq_d_true (envL (a.toList ++ b.toList)) =
      okB (V3.absDiffEq a b eps52) [.absDiff a.x b.x eps52 true, .absDiff a.y b.y eps52 true, .absDiff a.z b.z eps52 true] ∧
      V3.absDiffEq a b eps52 = true := by
  try simp only [eps52, one_div] at *
  constructor <;> simp [V3.absDiffEq, V3.toList, okB, eps52, envL, *]

theorem t_v3_abs_diff_eq_d_false_0 (a b : V3 K) (h0 : Approx.absDiffEq a.x b.x eps52 = false) :
    t_v3_abs_diff_eq_d_false_0 (envL (a.toList ++ b.toList)) =
      okB (V3.absDiffEq a b eps52) [.absDiff a.x b.x eps52 false] ∧
      V3.absDiffEq a b eps52 = false := by
  try simp only [eps52, one_div] at *
  constructor <;> simp [V3.absDiffEq, V3.toList, okB, eps52, envL, *]

theorem t_v3_relative_eq_d_true (a b : V3 K) (h0 : Approx.relEq a.x b.x eps52 eps52 = true) (h1 : Approx.relEq a.y b.y eps52 eps52 = true) (h2 : Approx.relEq a.z b.z eps52 eps52 = true) :
    t_v3_relative_eq_d_true (envL (a.toList ++ b.toList)) =
      okB (V3.relEq a b eps52 eps52) [.rel a.x b.x eps52 eps52 true, .rel a.y b.y eps52 eps52 true, .rel a.z b.z eps52 eps52 true] ∧
      V3.relEq a b eps52 eps52 = true := by
  try simp only [eps52, one_div] at *
  constructor <;> simp [V3.relEq, V3.toList, okB, eps52, envL, *]

theorem t_v3_relative_eq_d_false_0 (a b : V3 K) (h0 : Approx.relEq a.x b.x eps52 eps52 = false) :
    t_v3_relative_eq_d_false_0 (envL (a.toList ++ b.toList)) =
      okB (V3.relEq a b eps52 eps52) [.rel a.x b.x eps52 eps52 false] ∧
      V3.relEq a b eps52 eps52 = false := by
  try simp only [eps52, one_div] at *
  constructor <;> simp [V3.relEq, V3.toList, okB, eps52, envL, *]

theorem t_v3_ulps_eq_d_true (a b : V3 K) (h0 : Approx.ulpsEq a.x b.x eps52 4 = true) (h1 : Approx.ulpsEq a.y b.y eps52 4 = true) (h2 : Approx.ulpsEq a.z b.z eps52 4 = true) :
    t_v3_ulps_eq_d_true (envL (a.toList ++ b.toList)) =
      okB (V3.ulpsEq a b eps52 4) [.ulps a.x b.x eps52 4 true, .ulps a.y b.y eps52 4 true, .ulps a.z b.z eps52 4 true] ∧
      V3.ulpsEq a b eps52 4 = true := by
  try simp only [eps52, one_div] at *
  constructor <;> simp [V3.ulpsEq, V3.toList, okB, eps52, envL, *]

theorem t_v3_ulps_eq_d_false_0 (a b : V3 K) (h0 : Approx.ulpsEq a.x b.x eps52 4 = false) :
    t_v3_ulps_eq_d_false_0 (envL (a.toList ++ b.toList)) =
      okB (V3.ulpsEq a b eps52 4) [.ulps a.x b.x eps52 4 false] ∧
      V3.ulpsEq a b eps52 4 = false := by
  try simp only [eps52, one_div] at *
  constructor <;> simp [V3.ulpsEq, V3.toList, okB, eps52, envL, *]

/-! ## `v4` -/
theorem t_v4_abs_diff_eq_d_true (a b : V4 K) (h0 : Approx.absDiffEq a.x b.x eps52 = true) (h1 : Approx.absDiffEq a.y b.y eps52 = true) (h2 : Approx.absDiffEq a.z b.z eps52 = true) (h3 : Approx.absDiffEq a.w b.w eps52 = true) :
    t_v4_abs_diff_eq_d_true (envL (a.toList ++ b.toList)) =
      okB (V4.absDiffEq a b eps52) [.absDiff a.x b.x eps52 true, .absDiff a.y b.y eps52 true, .absDiff a.z b.z eps52 true, .absDiff a.w b.w eps52 true] ∧
      V4.absDiffEq a b eps52 = true := by
  try simp only [eps52, one_div] at *
  constructor <;> simp [V4.absDiffEq, V4.toList, okB, eps52, envL, *]

theorem t_v4_abs_diff_eq_d_false_0 (a b : V4 K) (h0 : Approx.absDiffEq a.x b.x eps52 = false) :
    t_v4_abs_diff_eq_d_false_0 (envL (a.toList ++ b.toList)) =
      okB (V4.absDiffEq a b eps52) [.absDiff a.x b.x eps52 false] ∧
      V4.absDiffEq a b eps52 = false := by
  try simp only [eps52, one_div] at *
  constructor <;> simp [V4.absDiffEq, V4.toList, okB, eps52, envL, *]

theorem t_v4_relative_eq_d_true (a b : V4 K) (h0 : Approx.relEq a.x b.x eps52 eps52 = true) (h1 : Approx.relEq a.y b.y eps52 eps52 = true) (h2 : Approx.relEq a.z b.z eps52 eps52 = true) (h3 : Approx.relEq a.w b.w eps52 eps52 = true) :
    t_v4_relative_eq_d_true (envL (a.toList ++ b.toList)) =
      okB (V4.relEq a b eps52 eps52) [.rel a.x b.x eps52 eps52 true, .rel a.y b.y eps52 eps52 true, .rel a.z b.z eps52 eps52 true, .rel a.w b.w eps52 eps52 true] ∧
      V4.relEq a b eps52 eps52 = true := by
  try simp only [eps52, one_div] at *
  constructor <;> simp [V4.relEq, V4.toList, okB, eps52, envL, *]

theorem t_v4_relative_eq_d_false_0 (a b : V4 K) (h0 : Approx.relEq a.x b.x eps52 eps52 = false) :
    t_v4_relative_eq_d_false_0 (envL (a.toList ++ b.toList)) =
      okB (V4.relEq a b eps52 eps52) [.rel a.x b.x eps52 eps52 false] ∧
      V4.relEq a b eps52 eps52 = false := by
  try simp only [eps52, one_div] at *
  constructor <;> simp [V4.relEq, V4.toList, okB, eps52, envL, *]

theorem t_v4_ulps_eq_d_true (a b : V4 K) (h0 : Approx.ulpsEq a.x b.x eps52 4 = true) (h1 : Approx.ulpsEq a.y b.y eps52 4 = true) (h2 : Approx.ulpsEq a.z b.z eps52 4 = true) (h3 : Approx.ulpsEq a.w b.w eps52 4 = true) :
    t_v4_ulps_eq_d_true (envL (a.toList ++ b.toList)) =
      okB (V4.ulpsEq a b eps52 4) [.ulps a.x b.x eps52 4 true, .ulps a.y b.y eps52 4 true, .ulps a.z b.z eps52 4 true, .ulps a.w b.w eps52 4 true] ∧
      V4.ulpsEq a b eps52 4 = true := by
  try simp only [eps52, one_div] at *
  constructor <;> simp [V4.ulpsEq, V4.toList, okB, eps52, envL, *]

theorem t_v4_ulps_eq_d_false_0 (a b : V4 K) (h0 : Approx.ulpsEq a.x b.x eps52 4 = false) :
    t_v4_ulps_eq_d_false_0 (envL (a.toList ++ b.toList)) =
      okB (V4.ulpsEq a b eps52 4) [.ulps a.x b.x eps52 4 false] ∧
      V4.ulpsEq a b eps52 4 = false := by
  try simp only [eps52, one_div] at *
  constructor <;> simp [V4.ulpsEq, V4.toList, okB, eps52, envL, *]

/-! ## `p1` -/
theorem t_p1_abs_diff_eq_d_true (a b : P1 K) (h0 : Approx.absDiffEq a.x b.x eps52 = true) :
    t_p1_abs_diff_eq_d_true (envL (a.toList ++ b.toList)) =
      okB (P1.absDiffEq a b eps52) [.absDiff a.x b.x eps52 true] ∧
      P1.absDiffEq a b eps52 = true := by
  try simp only [eps52, one_div] at *
  constructor <;> simp [P1.absDiffEq, P1.toList, okB, eps52, envL, *]

theorem t_p1_abs_diff_eq_d_false_0 (a b : P1 K) (h0 : Approx.absDiffEq a.x b.x eps52 = false) :
    t_p1_abs_diff_eq_d_false_0 (envL (a.toList ++ b.toList)) =
      okB (P1.absDiffEq a b eps52) [.absDiff a.x b.x eps52 false] ∧
      P1.absDiffEq a b eps52 = false := by
  try simp only [eps52, one_div] at *
  constructor <;> simp [P1.absDiffEq, P1.toList, okB, eps52, envL, *]

theorem t_p1_relative_eq_d_true (a b : P1 K) (h0 : Approx.relEq a.x b.x eps52 eps52 = true) :
    t_p1_relative_eq_d_true (envL (a.toList ++ b.toList)) =
      okB (P1.relEq a b eps52 eps52) [.rel a.x b.x eps52 eps52 true] ∧
      P1.relEq a b eps52 eps52 = true := by
  try simp only [eps52, one_div] at *
  constructor <;> simp [P1.relEq, P1.toList, okB, eps52, envL, *]

theorem t_p1_relative_eq_d_false_0 (a b : P1 K) (h0 : Approx.relEq a.x b.x eps52 eps52 = false) :
    t_p1_relative_eq_d_false_0 (envL (a.toList ++ b.toList)) =
      okB (P1.relEq a b eps52 eps52) [.rel a.x b.x eps52 eps52 false] ∧
      P1.relEq a b eps52 eps52 = false := by
  try simp only [eps52, one_div] at *
  constructor <;> simp [P1.relEq, P1.toList, okB, eps52, envL, *]

theorem t_p1_ulps_eq_d_true (a b : P1 K) (h0 : Approx.ulpsEq a.x b.x eps52 4 = true) :
    t_p1_ulps_eq_d_true (envL (a.toList ++ b.toList)) =
      okB (P1.ulpsEq a b eps52 4) [.ulps a.x b.x eps52 4 true] ∧
      P1.ulpsEq a b eps52 4 = true := by
  try simp only [eps52, one_div] at *
  constructor <;> simp [P1.ulpsEq, P1.toList, okB, eps52, envL, *]

theorem t_p1_ulps_eq_d_false_0 (a b : P1 K) (h0 : Approx.ulpsEq a.x b.x eps52 4 = false) :
    t_p1_ulps_eq_d_false_0 (envL (a.toList ++ b.toList)) =
      okB (P1.ulpsEq a b eps52 4) [.ulps a.x b.x eps52 4 false] ∧
      P1.ulpsEq a b eps52 4 = false := by
  try simp only [eps52, one_div] at *
  constructor <;> simp [P1.ulpsEq, P1.toList, okB, eps52, envL, *]

/-! ## `p2` -/
theorem t_p2_abs_diff_eq_d_true (a b : P2 K) (h0 : Approx.absDiffEq a.x b.x eps52 = true) (h1 : Approx.absDiffEq a.y b.y eps52 = true) :
    t_p2_abs_diff_eq_d_true (envL (a.toList ++ b.toList)) =
      okB (P2.absDiffEq a b eps52) [.absDiff a.x b.x eps52 true, .absDiff a.y b.y eps52 true] ∧
      P2.absDiffEq a b eps52 = true := by
  try simp only [eps52, one_div] at *
  constructor <;> simp [P2.absDiffEq, P2.toList, okB, eps52, envL, *]

theorem t_p2_abs_diff_eq_d_false_0 (a b : P2 K) (h0 : Approx.absDiffEq a.x b.x eps52 = false) :
    t_p2_abs_diff_eq_d_false_0 (envL (a.toList ++ b.toList)) =
      okB (P2.absDiffEq a b eps52) [.absDiff a.x b.x eps52 false] ∧
      P2.absDiffEq a b eps52 = false := by
  try simp only [eps52, one_div] at *
  constructor <;> simp [P2.absDiffEq, P2.toList, okB, eps52, envL, *]

theorem t_p2_relative_eq_d_true (a b : P2 K) (h0 : Approx.relEq a.x b.x eps52 eps52 = true) (h1 : Approx.relEq a.y b.y eps52 eps52 = true) :
    t_p2_relative_eq_d_true (envL (a.toList ++ b.toList)) =
      okB (P2.relEq a b eps52 eps52) [.rel a.x b.x eps52 eps52 true, .rel a.y b.y eps52 eps52 true] ∧
      P2.relEq a b eps52 eps52 = true := by
  try simp only [eps52, one_div] at *
  constructor <;> simp [P2.relEq, P2.toList, okB, eps52, envL, *]

theorem t_p2_relative_eq_d_false_0 (a b : P2 K) (h0 : Approx.relEq a.x b.x eps52 eps52 = false) :
    t_p2_relative_eq_d_false_0 (envL (a.toList ++ b.toList)) =
      okB (P2.relEq a b eps52 eps52) [.rel a.x b.x eps52 eps52 false] ∧
      P2.relEq a b eps52 eps52 = false := by
  try simp only [eps52, one_div] at *
  constructor <;> simp [P2.relEq, P2.toList, okB, eps52, envL, *]

theorem t_p2_ulps_eq_d_true (a b : P2 K) (h0 : Approx.ulpsEq a.x b.x eps52 4 = true) (h1 : Approx.ulpsEq a.y b.y eps52 4 = true) :
    t_p2_ulps_eq_d_true (envL (a.toList ++ b.toList)) =
      okB (P2.ulpsEq a b eps52 4) [.ulps a.x b.x eps52 4 true, .ulps a.y b.y eps52 4 true] ∧
      P2.ulpsEq a b eps52 4 = true := by
  try simp only [eps52, one_div] at *
  constructor <;> simp [P2.ulpsEq, P2.toList, okB, eps52, envL, *]

theorem t_p2_ulps_eq_d_false_0 (a b : P2 K) (h0 : Approx.ulpsEq a.x b.x eps52 4 = false) :
    t_p2_ulps_eq_d_false_0 (envL (a.toList ++ b.toList)) =
      okB (P2.ulpsEq a b eps52 4) [.ulps a.x b.x eps52 4 false] ∧
      P2.ulpsEq a b eps52 4 = false := by
  try simp only [eps52, one_div] at *
  constructor <;> simp [P2.ulpsEq, P2.toList, okB, eps52, envL, *]

/-! ## `p3` -/
theorem t_p3_abs_diff_eq_d_true (a b : P3 K) (h0 : Approx.absDiffEq a.x b.x eps52 = true) (h1 : Approx.absDiffEq a.y b.y eps52 = true) (h2 : Approx.absDiffEq a.z b.z eps52 = true) :
    t_p3_abs_diff_eq_d_true (envL (a.toList ++ b.toList)) =
      okB (P3.absDiffEq a b eps52) [.absDiff a.x b.x eps52 true, .absDiff a.y b.y eps52 true, .absDiff a.z b.z eps52 true] ∧
      P3.absDiffEq a b eps52 = true := by
  try simp only [eps52, one_div] at *
  constructor <;> simp [P3.absDiffEq, P3.toList, okB, eps52, envL, *]

theorem t_p3_abs_diff_eq_d_false_0 (a b : P3 K) (h0 : Approx.absDiffEq a.x b.x eps52 = false) :
    t_p3_abs_diff_eq_d_false_0 (envL (a.toList ++ b.toList)) =
      okB (P3.absDiffEq a b eps52) [.absDiff a.x b.x eps52 false] ∧
      P3.absDiffEq a b eps52 = false := by
  try simp only [eps52, one_div] at *
  constructor <;> simp [P3.absDiffEq, P3.toList, okB, eps52, envL, *]

theorem t_p3_relative_eq_d_true (a b : P3 K) (h0 : Approx.relEq a.x b.x eps52 eps52 = true) (h1 : Approx.relEq a.y b.y eps52 eps52 = true) (h2 : Approx.relEq a.z b.z eps52 eps52 = true) :
    t_p3_relative_eq_d_true (envL (a.toList ++ b.toList)) =
      okB (P3.relEq a b eps52 eps52) [.rel a.x b.x eps52 eps52 true, .rel a.y b.y eps52 eps52 true, .rel a.z b.z eps52 eps52 true] ∧
      P3.relEq a b eps52 eps52 = true := by
  try simp only [eps52, one_div] at *
  constructor <;> simp [P3.relEq, P3.toList, okB, eps52, envL, *]

theorem t_p3_relative_eq_d_false_0 (a b : P3 K) (h0 : Approx.relEq a.x b.x eps52 eps52 = false) :
    t_p3_relative_eq_d_false_0 (envL (a.toList ++ b.toList)) =
      okB (P3.relEq a b eps52 eps52) [.rel a.x b.x eps52 eps52 false] ∧
      P3.relEq a b eps52 eps52 = false := by
  try simp only [eps52, one_div] at *
  constructor <;> simp [P3.relEq, P3.toList, okB, eps52, envL, *]

theorem t_p3_ulps_eq_d_true (a b : P3 K) (h0 : Approx.ulpsEq a.x b.x eps52 4 = true) (h1 : Approx.ulpsEq a.y b.y eps52 4 = true) (h2 : Approx.ulpsEq a.z b.z eps52 4 = true) :
    t_p3_ulps_eq_d_true (envL (a.toList ++ b.toList)) =
      okB (P3.ulpsEq a b eps52 4) [.ulps a.x b.x eps52 4 true, .ulps a.y b.y eps52 4 true, .ulps a.z b.z eps52 4 true] ∧
      P3.ulpsEq a b eps52 4 = true := by
  try simp only [eps52, one_div] at *
  constructor <;> simp [P3.ulpsEq, P3.toList, okB, eps52, envL, *]

theorem t_p3_ulps_eq_d_false_0 (a b : P3 K) (h0 : Approx.ulpsEq a.x b.x eps52 4 = false) :
    t_p3_ulps_eq_d_false_0 (envL (a.toList ++ b.toList)) =
      okB (P3.ulpsEq a b eps52 4) [.ulps a.x b.x eps52 4 false] ∧
      P3.ulpsEq a b eps52 4 = false := by
  try simp only [eps52, one_div] at *
  constructor <;> simp [P3.ulpsEq, P3.toList, okB, eps52, envL, *]

/-! ## `m2` -/
theorem t_m2_abs_diff_eq_d_true (a b : M2 K) (h0 : Approx.absDiffEq a.x.x b.x.x Lits.matEps = true) (h1 : Approx.absDiffEq a.x.y b.x.y Lits.matEps = true) (h2 : Approx.absDiffEq a.y.x b.y.x Lits.matEps = true) (h3 : Approx.absDiffEq a.y.y b.y.y Lits.matEps = true) :
    t_m2_abs_diff_eq_d_true (envL (a.toList ++ b.toList)) =
      okB (M2.absDiffEq a b Lits.matEps) [.absDiff a.x.x b.x.x Lits.matEps true, .absDiff a.x.y b.x.y Lits.matEps true, .absDiff a.y.x b.y.x Lits.matEps true, .absDiff a.y.y b.y.y Lits.matEps true] ∧
      M2.absDiffEq a b Lits.matEps = true := by
  try simp only [eps52, one_div] at *
  constructor <;> simp [M2.absDiffEq, M2.toList, V2.absDiffEq, V2.toList, okB, eps52, envL, *]

theorem t_m2_abs_diff_eq_d_false_0 (a b : M2 K) (h0 : Approx.absDiffEq a.x.x b.x.x Lits.matEps = false) :
    t_m2_abs_diff_eq_d_false_0 (envL (a.toList ++ b.toList)) =
      okB (M2.absDiffEq a b Lits.matEps) [.absDiff a.x.x b.x.x Lits.matEps false] ∧
      M2.absDiffEq a b Lits.matEps = false := by
  try simp only [eps52, one_div] at *
  constructor <;> simp [M2.absDiffEq, M2.toList, V2.absDiffEq, V2.toList, okB, eps52, envL, *]

theorem t_m2_relative_eq_d_true (a b : M2 K) (h0 : Approx.relEq a.x.x b.x.x Lits.matEps eps52 = true) (h1 : Approx.relEq a.x.y b.x.y Lits.matEps eps52 = true) (h2 : Approx.relEq a.y.x b.y.x Lits.matEps eps52 = true) (h3 : Approx.relEq a.y.y b.y.y Lits.matEps eps52 = true) :
    t_m2_relative_eq_d_true (envL (a.toList ++ b.toList)) =
      okB (M2.relEq a b Lits.matEps eps52) [.rel a.x.x b.x.x Lits.matEps eps52 true, .rel a.x.y b.x.y Lits.matEps eps52 true, .rel a.y.x b.y.x Lits.matEps eps52 true, .rel a.y.y b.y.y Lits.matEps eps52 true] ∧
      M2.relEq a b Lits.matEps eps52 = true := by
  try simp only [eps52, one_div] at *
  constructor <;> simp [M2.relEq, M2.toList, V2.relEq, V2.toList, okB, eps52, envL, *]

theorem t_m2_relative_eq_d_false_0 (a b : M2 K) (h0 : Approx.relEq a.x.x b.x.x Lits.matEps eps52 = false) :
    t_m2_relative_eq_d_false_0 (envL (a.toList ++ b.toList)) =
      okB (M2.relEq a b Lits.matEps eps52) [.rel a.x.x b.x.x Lits.matEps eps52 false] ∧
      M2.relEq a b Lits.matEps eps52 = false := by
  try simp only [eps52, one_div] at *
  constructor <;> simp [M2.relEq, M2.toList, V2.relEq, V2.toList, okB, eps52, envL, *]

theorem t_m2_ulps_eq_d_true (a b : M2 K) (h0 : Approx.ulpsEq a.x.x b.x.x Lits.matEps 4 = true) (h1 : Approx.ulpsEq a.x.y b.x.y Lits.matEps 4 = true) (h2 : Approx.ulpsEq a.y.x b.y.x Lits.matEps 4 = true) (h3 : Approx.ulpsEq a.y.y b.y.y Lits.matEps 4 = true) :
    t_m2_ulps_eq_d_true (envL (a.toList ++ b.toList)) =
      okB (M2.ulpsEq a b Lits.matEps 4) [.ulps a.x.x b.x.x Lits.matEps 4 true, .ulps a.x.y b.x.y Lits.matEps 4 true, .ulps a.y.x b.y.x Lits.matEps 4 true, .ulps a.y.y b.y.y Lits.matEps 4 true] ∧
      M2.ulpsEq a b Lits.matEps 4 = true := by
  try simp only [eps52, one_div] at *
  constructor <;> simp [M2.ulpsEq, M2.toList, V2.ulpsEq, V2.toList, okB, eps52, envL, *]

theorem t_m2_ulps_eq_d_false_0 (a b : M2 K) (h0 : Approx.ulpsEq a.x.x b.x.x Lits.matEps 4 = false) :
    t_m2_ulps_eq_d_false_0 (envL (a.toList ++ b.toList)) =
      okB (M2.ulpsEq a b Lits.matEps 4) [.ulps a.x.x b.x.x Lits.matEps 4 false] ∧
      M2.ulpsEq a b Lits.matEps 4 = false := by
  try simp only [eps52, one_div] at *
  constructor <;> simp [M2.ulpsEq, M2.toList, V2.ulpsEq, V2.toList, okB, eps52, envL, *]

/-! ## `m3` -/
theorem t_m3_abs_diff_eq_d_true (a b : M3 K) (h0 : Approx.absDiffEq a.x.x b.x.x Lits.matEps = true) (h1 : Approx.absDiffEq a.x.y b.x.y Lits.matEps = true) (h2 : Approx.absDiffEq a.x.z b.x.z Lits.matEps = true) (h3 : Approx.absDiffEq a.y.x b.y.x Lits.matEps = true) (h4 : Approx.absDiffEq a.y.y b.y.y Lits.matEps = true) (h5 : Approx.absDiffEq a.y.z b.y.z Lits.matEps = true) (h6 : Approx.absDiffEq a.z.x b.z.x Lits.matEps = true) (h7 : Approx.absDiffEq a.z.y b.z.y Lits.matEps = true) (h8 : Approx.absDiffEq a.z.z b.z.z Lits.matEps = true) :
    t_m3_abs_diff_eq_d_true (envL (a.toList ++ b.toList)) =
      okB (M3.absDiffEq a b Lits.matEps) [.absDiff a.x.x b.x.x Lits.matEps true, .absDiff a.x.y b.x.y Lits.matEps true, .absDiff a.x.z b.x.z Lits.matEps true, .absDiff a.y.x b.y.x Lits.matEps true, .absDiff a.y.y b.y.y Lits.matEps true, .absDiff a.y.z b.y.z Lits.matEps true, .absDiff a.z.x b.z.x Lits.matEps true, .absDiff a.z.y b.z.y Lits.matEps true, .absDiff a.z.z b.z.z Lits.matEps true] ∧
      M3.absDiffEq a b Lits.matEps = true := by
  try simp only [eps52, one_div] at *
  constructor <;> simp [M3.absDiffEq, M3.toList, V3.absDiffEq, V3.toList, okB, eps52, envL, *]

theorem t_m3_abs_diff_eq_d_false_0 (a b : M3 K) (h0 : Approx.absDiffEq a.x.x b.x.x Lits.matEps = false) :
    t_m3_abs_diff_eq_d_false_0 (envL (a.toList ++ b.toList)) =
      okB (M3.absDiffEq a b Lits.matEps) [.absDiff a.x.x b.x.x Lits.matEps false] ∧
      M3.absDiffEq a b Lits.matEps = false := by
  try simp only [eps52, one_div] at *
  constructor <;> simp [M3.absDiffEq, M3.toList, V3.absDiffEq, V3.toList, okB, eps52, envL, *]

theorem t_m3_relative_eq_d_true (a b : M3 K) (h0 : Approx.relEq a.x.x b.x.x Lits.matEps eps52 = true) (h1 : Approx.relEq a.x.y b.x.y Lits.matEps eps52 = true) (h2 : Approx.relEq a.x.z b.x.z Lits.matEps eps52 = true) (h3 : Approx.relEq a.y.x b.y.x Lits.matEps eps52 = true) (h4 : Approx.relEq a.y.y b.y.y Lits.matEps eps52 = true) (h5 : Approx.relEq a.y.z b.y.z Lits.matEps eps52 = true) (h6 : Approx.relEq a.z.x b.z.x Lits.matEps eps52 = true) (h7 : Approx.relEq a.z.y b.z.y Lits.matEps eps52 = true) (h8 : Approx.relEq a.z.z b.z.z Lits.matEps eps52 = true) :
    t_m3_relative_eq_d_true (envL (a.toList ++ b.toList)) =
      okB (M3.relEq a b Lits.matEps eps52) [.rel a.x.x b.x.x Lits.matEps eps52 true, .rel a.x.y b.x.y Lits.matEps eps52 true, .rel a.x.z b.x.z Lits.matEps eps52 true, .rel a.y.x b.y.x Lits.matEps eps52 true, .rel a.y.y b.y.y Lits.matEps eps52 true, .rel a.y.z b.y.z Lits.matEps eps52 true, .rel a.z.x b.z.x Lits.matEps eps52 true, .rel a.z.y b.z.y Lits.matEps eps52 true, .rel a.z.z b.z.z Lits.matEps eps52 true] ∧
      M3.relEq a b Lits.matEps eps52 = true := by
  try simp only [eps52, one_div] at *
  constructor <;> simp [M3.relEq, M3.toList, V3.relEq, V3.toList, okB, eps52, envL, *]

theorem t_m3_relative_eq_d_false_0 (a b : M3 K) (h0 : Approx.relEq a.x.x b.x.x Lits.matEps eps52 = false) :
    t_m3_relative_eq_d_false_0 (envL (a.toList ++ b.toList)) =
      okB (M3.relEq a b Lits.matEps eps52) [.rel a.x.x b.x.x Lits.matEps eps52 false] ∧
      M3.relEq a b Lits.matEps eps52 = false := by
  try simp only [eps52, one_div] at *
  constructor <;> simp [M3.relEq, M3.toList, V3.relEq, V3.toList, okB, eps52, envL, *]

theorem t_m3_ulps_eq_d_true (a b : M3 K) (h0 : Approx.ulpsEq a.x.x b.x.x Lits.matEps 4 = true) (h1 : Approx.ulpsEq a.x.y b.x.y Lits.matEps 4 = true) (h2 : Approx.ulpsEq a.x.z b.x.z Lits.matEps 4 = true) (h3 : Approx.ulpsEq a.y.x b.y.x Lits.matEps 4 = true) (h4 : Approx.ulpsEq a.y.y b.y.y Lits.matEps 4 = true) (h5 : Approx.ulpsEq a.y.z b.y.z Lits.matEps 4 = true) (h6 : Approx.ulpsEq a.z.x b.z.x Lits.matEps 4 = true) (h7 : Approx.ulpsEq a.z.y b.z.y Lits.matEps 4 = true) (h8 : Approx.ulpsEq a.z.z b.z.z Lits.matEps 4 = true) :
    t_m3_ulps_eq_d_true (envL (a.toList ++ b.toList)) =
      okB (M3.ulpsEq a b Lits.matEps 4) [.ulps a.x.x b.x.x Lits.matEps 4 true, .ulps a.x.y b.x.y Lits.matEps 4 true, .ulps a.x.z b.x.z Lits.matEps 4 true, .ulps a.y.x b.y.x Lits.matEps 4 true, .ulps a.y.y b.y.y Lits.matEps 4 true, .ulps a.y.z b.y.z Lits.matEps 4 true, .ulps a.z.x b.z.x Lits.matEps 4 true, .ulps a.z.y b.z.y Lits.matEps 4 true, .ulps a.z.z b.z.z Lits.matEps 4 true] ∧
      M3.ulpsEq a b Lits.matEps 4 = true := by
  try simp only [eps52, one_div] at *
  constructor <;> simp [M3.ulpsEq, M3.toList, V3.ulpsEq, V3.toList, okB, eps52, envL, *]

theorem t_m3_ulps_eq_d_false_0 (a b : M3 K) (h0 : Approx.ulpsEq a.x.x b.x.x Lits.matEps 4 = false) :
    t_m3_ulps_eq_d_false_0 (envL (a.toList ++ b.toList)) =
      okB (M3.ulpsEq a b Lits.matEps 4) [.ulps a.x.x b.x.x Lits.matEps 4 false] ∧
      M3.ulpsEq a b Lits.matEps 4 = false := by
  try simp only [eps52, one_div] at *
  constructor <;> simp [M3.ulpsEq, M3.toList, V3.ulpsEq, V3.toList, okB, eps52, envL, *]

/-! ## `m4` -/
theorem t_m4_abs_diff_eq_d_true (a b : M4 K) (h0 : Approx.absDiffEq a.x.x b.x.x Lits.matEps = true) (h1 : Approx.absDiffEq a.x.y b.x.y Lits.matEps = true) (h2 : Approx.absDiffEq a.x.z b.x.z Lits.matEps = true) (h3 : Approx.absDiffEq a.x.w b.x.w Lits.matEps = true) (h4 : Approx.absDiffEq a.y.x b.y.x Lits.matEps = true) (h5 : Approx.absDiffEq a.y.y b.y.y Lits.matEps = true) (h6 : Approx.absDiffEq a.y.z b.y.z Lits.matEps = true) (h7 : Approx.absDiffEq a.y.w b.y.w Lits.matEps = true) (h8 : Approx.absDiffEq a.z.x b.z.x Lits.matEps = true) (h9 : Approx.absDiffEq a.z.y b.z.y Lits.matEps = true) (h10 : Approx.absDiffEq a.z.z b.z.z Lits.matEps = true) (h11 : Approx.absDiffEq a.z.w b.z.w Lits.matEps = true) (h12 : Approx.absDiffEq a.w.x b.w.x Lits.matEps = true) (h13 : Approx.absDiffEq a.w.y b.w.y Lits.matEps = true) (h14 : Approx.absDiffEq a.w.z b.w.z Lits.matEps = true) (h15 : Approx.absDiffEq a.w.w b.w.w Lits.matEps = true) :
    t_m4_abs_diff_eq_d_true (envL (a.toList ++ b.toList)) =
      okB (M4.absDiffEq a b Lits.matEps) [.absDiff a.x.x b.x.x Lits.matEps true, .absDiff a.x.y b.x.y Lits.matEps true, .absDiff a.x.z b.x.z Lits.matEps true, .absDiff a.x.w b.x.w Lits.matEps true, .absDiff a.y.x b.y.x Lits.matEps true, .absDiff a.y.y b.y.y Lits.matEps true, .absDiff a.y.z b.y.z Lits.matEps true, .absDiff a.y.w b.y.w Lits.matEps true, .absDiff a.z.x b.z.x Lits.matEps true, .absDiff a.z.y b.z.y Lits.matEps true, .absDiff a.z.z b.z.z Lits.matEps true, .absDiff a.z.w b.z.w Lits.matEps true, .absDiff a.w.x b.w.x Lits.matEps true, .absDiff a.w.y b.w.y Lits.matEps true, .absDiff a.w.z b.w.z Lits.matEps true, .absDiff a.w.w b.w.w Lits.matEps true] ∧
      M4.absDiffEq a b Lits.matEps = true := by
  try simp only [eps52, one_div] at *
  constructor <;> simp [M4.absDiffEq, M4.toList, V4.absDiffEq, V4.toList, okB, eps52, envL, *]

theorem t_m4_abs_diff_eq_d_false_0 (a b : M4 K) (h0 : Approx.absDiffEq a.x.x b.x.x Lits.matEps = false) :
    t_m4_abs_diff_eq_d_false_0 (envL (a.toList ++ b.toList)) =
      okB (M4.absDiffEq a b Lits.matEps) [.absDiff a.x.x b.x.x Lits.matEps false] ∧
      M4.absDiffEq a b Lits.matEps = false := by
  try simp only [eps52, one_div] at *
  constructor <;> simp [M4.absDiffEq, M4.toList, V4.absDiffEq, V4.toList, okB, eps52, envL, *]

theorem t_m4_relative_eq_d_true (a b : M4 K) (h0 : Approx.relEq a.x.x b.x.x Lits.matEps eps52 = true) (h1 : Approx.relEq a.x.y b.x.y Lits.matEps eps52 = true) (h2 : Approx.relEq a.x.z b.x.z Lits.matEps eps52 = true) (h3 : Approx.relEq a.x.w b.x.w Lits.matEps eps52 = true) (h4 : Approx.relEq a.y.x b.y.x Lits.matEps eps52 = true) (h5 : Approx.relEq a.y.y b.y.y Lits.matEps eps52 = true) (h6 : Approx.relEq a.y.z b.y.z Lits.matEps eps52 = true) (h7 : Approx.relEq a.y.w b.y.w Lits.matEps eps52 = true) (h8 : Approx.relEq a.z.x b.z.x Lits.matEps eps52 = true) (h9 : Approx.relEq a.z.y b.z.y Lits.matEps eps52 = true) (h10 : Approx.relEq a.z.z b.z.z Lits.matEps eps52 = true) (h11 : Approx.relEq a.z.w b.z.w Lits.matEps eps52 = true) (h12 : Approx.relEq a.w.x b.w.x Lits.matEps eps52 = true) (h13 : Approx.relEq a.w.y b.w.y Lits.matEps eps52 = true) (h14 : Approx.relEq a.w.z b.w.z Lits.matEps eps52 = true) (h15 : Approx.relEq a.w.w b.w.w Lits.matEps eps52 = true) :
    t_m4_relative_eq_d_true (envL (a.toList ++ b.toList)) =
      okB (M4.relEq a b Lits.matEps eps52) [.rel a.x.x b.x.x Lits.matEps eps52 true, .rel a.x.y b.x.y Lits.matEps eps52 true, .rel a.x.z b.x.z Lits.matEps eps52 true, .rel a.x.w b.x.w Lits.matEps eps52 true, .rel a.y.x b.y.x Lits.matEps eps52 true, .rel a.y.y b.y.y Lits.matEps eps52 true, .rel a.y.z b.y.z Lits.matEps eps52 true, .rel a.y.w b.y.w Lits.matEps eps52 true, .rel a.z.x b.z.x Lits.matEps eps52 true, .rel a.z.y b.z.y Lits.matEps eps52 true, .rel a.z.z b.z.z Lits.matEps eps52 true, .rel a.z.w b.z.w Lits.matEps eps52 true, .rel a.w.x b.w.x Lits.matEps eps52 true, .rel a.w.y b.w.y Lits.matEps eps52 true, .rel a.w.z b.w.z Lits.matEps eps52 true, .rel a.w.w b.w.w Lits.matEps eps52 true] ∧
      M4.relEq a b Lits.matEps eps52 = true := by
  try simp only [eps52, one_div] at *
  constructor <;> simp [M4.relEq, M4.toList, V4.relEq, V4.toList, okB, eps52, envL, *]

theorem t_m4_relative_eq_d_false_0 (a b : M4 K) (h0 : Approx.relEq a.x.x b.x.x Lits.matEps eps52 = false) :
    t_m4_relative_eq_d_false_0 (envL (a.toList ++ b.toList)) =
      okB (M4.relEq a b Lits.matEps eps52) [.rel a.x.x b.x.x Lits.matEps eps52 false] ∧
      M4.relEq a b Lits.matEps eps52 = false := by
  try simp only [eps52, one_div] at *
  constructor <;> simp [M4.relEq, M4.toList, V4.relEq, V4.toList, okB, eps52, envL, *]

theorem t_m4_ulps_eq_d_true (a b : M4 K) (h0 : Approx.ulpsEq a.x.x b.x.x Lits.matEps 4 = true) (h1 : Approx.ulpsEq a.x.y b.x.y Lits.matEps 4 = true) (h2 : Approx.ulpsEq a.x.z b.x.z Lits.matEps 4 = true) (h3 : Approx.ulpsEq a.x.w b.x.w Lits.matEps 4 = true) (h4 : Approx.ulpsEq a.y.x b.y.x Lits.matEps 4 = true) (h5 : Approx.ulpsEq a.y.y b.y.y Lits.matEps 4 = true) (h6 : Approx.ulpsEq a.y.z b.y.z Lits.matEps 4 = true) (h7 : Approx.ulpsEq a.y.w b.y.w Lits.matEps 4 = true) (h8 : Approx.ulpsEq a.z.x b.z.x Lits.matEps 4 = true) (h9 : Approx.ulpsEq a.z.y b.z.y Lits.matEps 4 = true) (h10 : Approx.ulpsEq a.z.z b.z.z Lits.matEps 4 = true) (h11 : Approx.ulpsEq a.z.w b.z.w Lits.matEps 4 = true) (h12 : Approx.ulpsEq a.w.x b.w.x Lits.matEps 4 = true) (h13 : Approx.ulpsEq a.w.y b.w.y Lits.matEps 4 = true) (h14 : Approx.ulpsEq a.w.z b.w.z Lits.matEps 4 = true) (h15 : Approx.ulpsEq a.w.w b.w.w Lits.matEps 4 = true) :
    t_m4_ulps_eq_d_true (envL (a.toList ++ b.toList)) =
      okB (M4.ulpsEq a b Lits.matEps 4) [.ulps a.x.x b.x.x Lits.matEps 4 true, .ulps a.x.y b.x.y Lits.matEps 4 true, .ulps a.x.z b.x.z Lits.matEps 4 true, .ulps a.x.w b.x.w Lits.matEps 4 true, .ulps a.y.x b.y.x Lits.matEps 4 true, .ulps a.y.y b.y.y Lits.matEps 4 true, .ulps a.y.z b.y.z Lits.matEps 4 true, .ulps a.y.w b.y.w Lits.matEps 4 true, .ulps a.z.x b.z.x Lits.matEps 4 true, .ulps a.z.y b.z.y Lits.matEps 4 true, .ulps a.z.z b.z.z Lits.matEps 4 true, .ulps a.z.w b.z.w Lits.matEps 4 true, .ulps a.w.x b.w.x Lits.matEps 4 true, .ulps a.w.y b.w.y Lits.matEps 4 true, .ulps a.w.z b.w.z Lits.matEps 4 true, .ulps a.w.w b.w.w Lits.matEps 4 true] ∧
      M4.ulpsEq a b Lits.matEps 4 = true := by
  try simp only [eps52, one_div] at *
  constructor <;> simp [M4.ulpsEq, M4.toList, V4.ulpsEq, V4.toList, okB, eps52, envL, *]

theorem t_m4_ulps_eq_d_false_0 (a b : M4 K) (h0 : Approx.ulpsEq a.x.x b.x.x Lits.matEps 4 = false) :
    t_m4_ulps_eq_d_false_0 (envL (a.toList ++ b.toList)) =
      okB (M4.ulpsEq a b Lits.matEps 4) [.ulps a.x.x b.x.x Lits.matEps 4 false] ∧
      M4.ulpsEq a b Lits.matEps 4 = false := by
  try simp only [eps52, one_div] at *
  constructor <;> simp [M4.ulpsEq, M4.toList, V4.ulpsEq, V4.toList, okB, eps52, envL, *]

/-! ## `q` -/
theorem t_q_abs_diff_eq_d_true (a b : Quat K) (h0 : Approx.absDiffEq a.s b.s eps52 = true) (h1 : Approx.absDiffEq a.v.x b.v.x eps52 = true) (h2 : Approx.absDiffEq a.v.y b.v.y eps52 = true) (h3 : Approx.absDiffEq a.v.z b.v.z eps52 = true) :
    t_q_abs_diff_eq_d_true (envL (a.toList ++ b.toList)) =
      okB (Quat.absDiffEq a b eps52) [.absDiff a.s b.s eps52 true, .absDiff a.v.x b.v.x eps52 true, .absDiff a.v.y b.v.y eps52 true, .absDiff a.v.z b.v.z eps52 true] ∧
      Quat.absDiffEq a b eps52 = true := by
  try simp only [eps52, one_div] at *
  constructor <;> simp [Quat.absDiffEq, Quat.toList, V3.absDiffEq, V3.toList, okB, eps52, envL, *]

theorem t_q_abs_diff_eq_d_false_0 (a b : Quat K) (h0 : Approx.absDiffEq a.s b.s eps52 = false) :
    t_q_abs_diff_eq_d_false_0 (envL (a.toList ++ b.toList)) =
      okB (Quat.absDiffEq a b eps52) [.absDiff a.s b.s eps52 false] ∧
      Quat.absDiffEq a b eps52 = false := by
  try simp only [eps52, one_div] at *
  constructor <;> simp [Quat.absDiffEq, Quat.toList, V3.absDiffEq, V3.toList, okB, eps52, envL, *]

theorem t_q_relative_eq_d_true (a b : Quat K) (h0 : Approx.relEq a.s b.s eps52 eps52 = true) (h1 : Approx.relEq a.v.x b.v.x eps52 eps52 = true) (h2 : Approx.relEq a.v.y b.v.y eps52 eps52 = true) (h3 : Approx.relEq a.v.z b.v.z eps52 eps52 = true) :
    t_q_relative_eq_d_true (envL (a.toList ++ b.toList)) =
      okB (Quat.relEq a b eps52 eps52) [.rel a.s b.s eps52 eps52 true, .rel a.v.x b.v.x eps52 eps52 true, .rel a.v.y b.v.y eps52 eps52 true, .rel a.v.z b.v.z eps52 eps52 true] ∧
      Quat.relEq a b eps52 eps52 = true := by
  try simp only [eps52, one_div] at *
  constructor <;> simp [Quat.relEq, Quat.toList, V3.relEq, V3.toList, okB, eps52, envL, *]

theorem t_q_relative_eq_d_false_0 (a b : Quat K) (h0 : Approx.relEq a.s b.s eps52 eps52 = false) :
    t_q_relative_eq_d_false_0 (envL (a.toList ++ b.toList)) =
      okB (Quat.relEq a b eps52 eps52) [.rel a.s b.s eps52 eps52 false] ∧
      Quat.relEq a b eps52 eps52 = false := by
  try simp only [eps52, one_div] at *
  constructor <;> simp [Quat.relEq, Quat.toList, V3.relEq, V3.toList, okB, eps52, envL, *]

theorem t_q_ulps_eq_d_true (a b : Quat K) (h0 : Approx.ulpsEq a.s b.s eps52 4 = true) (h1 : Approx.ulpsEq a.v.x b.v.x eps52 4 = true) (h2 : Approx.ulpsEq a.v.y b.v.y eps52 4 = true) (h3 : Approx.ulpsEq a.v.z b.v.z eps52 4 = true) :
    t_q_ulps_eq_d_true (envL (a.toList ++ b.toList)) =
      okB (Quat.ulpsEq a b eps52 4) [.ulps a.s b.s eps52 4 true, .ulps a.v.x b.v.x eps52 4 true, .ulps a.v.y b.v.y eps52 4 true, .ulps a.v.z b.v.z eps52 4 true] ∧
      Quat.ulpsEq a b eps52 4 = true := by
  try simp only [eps52, one_div] at *
  constructor <;> simp [Quat.ulpsEq, Quat.toList, V3.ulpsEq, V3.toList, okB, eps52, envL, *]

theorem t_q_ulps_eq_d_false_0 (a b : Quat K) (h0 : Approx.ulpsEq a.s b.s eps52 4 = false) :
    t_q_ulps_eq_d_false_0 (envL (a.toList ++ b.toList)) =
      okB (Quat.ulpsEq a b eps52 4) [.ulps a.s b.s eps52 4 false] ∧
      Quat.ulpsEq a b eps52 4 = false := by
  try simp only [eps52, one_div] at *
  constructor <;> simp [Quat.ulpsEq, Quat.toList, V3.ulpsEq, V3.toList, okB, eps52, envL, *]

/-! ## `rad` -/
theorem t_rad_abs_diff_eq_d_true (a b : K) (h0 : Approx.absDiffEq a b eps52 = true) :
    t_rad_abs_diff_eq_d_true (envL ([a, b])) =
      okB (angleAbsDiffEq a b eps52) [.absDiff a b eps52 true] ∧
      angleAbsDiffEq a b eps52 = true := by
  try simp only [eps52, one_div] at *
  constructor <;> simp [angleAbsDiffEq, okB, eps52, envL, *]

theorem t_rad_abs_diff_eq_d_false_0 (a b : K) (h0 : Approx.absDiffEq a b eps52 = false) :
    t_rad_abs_diff_eq_d_false_0 (envL ([a, b])) =
      okB (angleAbsDiffEq a b eps52) [.absDiff a b eps52 false] ∧
      angleAbsDiffEq a b eps52 = false := by
  try simp only [eps52, one_div] at *
  constructor <;> simp [angleAbsDiffEq, okB, eps52, envL, *]

theorem t_rad_relative_eq_d_true (a b : K) (h0 : Approx.relEq a b eps52 eps52 = true) :
    t_rad_relative_eq_d_true (envL ([a, b])) =
      okB (angleRelEq a b eps52 eps52) [.rel a b eps52 eps52 true] ∧
      angleRelEq a b eps52 eps52 = true := by
  try simp only [eps52, one_div] at *
  constructor <;> simp [angleRelEq, okB, eps52, envL, *]

theorem t_rad_relative_eq_d_false_0 (a b : K) (h0 : Approx.relEq a b eps52 eps52 = false) :
    t_rad_relative_eq_d_false_0 (envL ([a, b])) =
      okB (angleRelEq a b eps52 eps52) [.rel a b eps52 eps52 false] ∧
      angleRelEq a b eps52 eps52 = false := by
  try simp only [eps52, one_div] at *
  constructor <;> simp [angleRelEq, okB, eps52, envL, *]

theorem t_rad_ulps_eq_d_true (a b : K) (h0 : Approx.ulpsEq a b eps52 4 = true) :
    t_rad_ulps_eq_d_true (envL ([a, b])) =
      okB (angleUlpsEq a b eps52 4) [.ulps a b eps52 4 true] ∧
      angleUlpsEq a b eps52 4 = true := by
  try simp only [eps52, one_div] at *
  constructor <;> simp [angleUlpsEq, okB, eps52, envL, *]

theorem t_rad_ulps_eq_d_false_0 (a b : K) (h0 : Approx.ulpsEq a b eps52 4 = false) :
    t_rad_ulps_eq_d_false_0 (envL ([a, b])) =
      okB (angleUlpsEq a b eps52 4) [.ulps a b eps52 4 false] ∧
      angleUlpsEq a b eps52 4 = false := by
  try simp only [eps52, one_div] at *
  constructor <;> simp [angleUlpsEq, okB, eps52, envL, *]

/-! ## `deg` -/
theorem t_deg_abs_diff_eq_d_true (a b : K) (h0 : Approx.absDiffEq a b eps52 = true) :
    t_deg_abs_diff_eq_d_true (envL ([a, b])) =
      okB (angleAbsDiffEq a b eps52) [.absDiff a b eps52 true] ∧
      angleAbsDiffEq a b eps52 = true := by
  try simp only [eps52, one_div] at *
  constructor <;> simp [angleAbsDiffEq, okB, eps52, envL, *]

theorem t_deg_abs_diff_eq_d_false_0 (a b : K) (h0 : Approx.absDiffEq a b eps52 = false) :
    t_deg_abs_diff_eq_d_false_0 (envL ([a, b])) =
      okB (angleAbsDiffEq a b eps52) [.absDiff a b eps52 false] ∧
      angleAbsDiffEq a b eps52 = false := by
  try simp only [eps52, one_div] at *
  constructor <;> simp [angleAbsDiffEq, okB, eps52, envL, *]

theorem t_deg_relative_eq_d_true (a b : K) (h0 : Approx.relEq a b eps52 eps52 = true) :
    t_deg_relative_eq_d_true (envL ([a, b])) =
      okB (angleRelEq a b eps52 eps52) [.rel a b eps52 eps52 true] ∧
      angleRelEq a b eps52 eps52 = true := by
  try simp only [eps52, one_div] at *
  constructor <;> simp [angleRelEq, okB, eps52, envL, *]

theorem t_deg_relative_eq_d_false_0 (a b : K) (h0 : Approx.relEq a b eps52 eps52 = false) :
    t_deg_relative_eq_d_false_0 (envL ([a, b])) =
      okB (angleRelEq a b eps52 eps52) [.rel a b eps52 eps52 false] ∧
      angleRelEq a b eps52 eps52 = false := by
  try simp only [eps52, one_div] at *
  constructor <;> simp [angleRelEq, okB, eps52, envL, *]

theorem t_deg_ulps_eq_d_true (a b : K) (h0 : Approx.ulpsEq a b eps52 4 = true) :
    t_deg_ulps_eq_d_true (envL ([a, b])) =
      okB (angleUlpsEq a b eps52 4) [.ulps a b eps52 4 true] ∧
      angleUlpsEq a b eps52 4 = true := by
  try simp only [eps52, one_div] at *
  constructor <;> simp [angleUlpsEq, okB, eps52, envL, *]

theorem t_deg_ulps_eq_d_false_0 (a b : K) (h0 : Approx.ulpsEq a b eps52 4 = false) :
    t_deg_ulps_eq_d_false_0 (envL ([a, b])) =
      okB (angleUlpsEq a b eps52 4) [.ulps a b eps52 4 false] ∧
      angleUlpsEq a b eps52 4 = false := by
  try simp only [eps52, one_div] at *
  constructor <;> simp [angleUlpsEq, okB, eps52, envL, *]

end Cg.Trace.C18OpsD
