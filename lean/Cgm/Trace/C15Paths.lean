import Cgm.Trace.C15
/-! # T obligations for C15, further paths: opposite vectors (both axis choices), `from_arc` with a fallback
axis, `Basis3::between_vectors` -/
set_option linter.unusedSectionVars false
namespace Cg.Trace.C15Paths
open Cg Cg.Gen.C15 Cg.Trace.C15
variable {K : Type} [Field K] [LinearOrder K] [Approx K] [Transc K] [FRem K] [Lits K]
attribute [local simp] Quat.normalize Quat.normalizeTo Quat.magnitude eps52 V3.normalize V3.normalizeTo
  V3.magnitude Quat.fromAxisAngle Angle.turnDiv

/-- `between_vectors`, opposite vectors, `a × unit_x` is accepted as the axis -/
theorem t_q_between_vectors_opp_x (a b : V3 K) (h1 : ulpsEqD (V3.dot a b) 1 = false)
    (h2 : ulpsEqD (V3.dot a b / Transc.sqrt (a.magnitude2 * b.magnitude2)) (-1) = true)
    (h3 : ulpsEqD (V3.cross a V3.unitX).magnitude2 0 = false) :
    t_q_between_vectors_opp_x (envL (a.toList ++ b.toList)) =
      .okG (Quat.betweenVectors a b).toList
        [.ulps (V3.dot a b) 1 eps52 4 false,
         .ulps (V3.dot a b / Transc.sqrt (a.magnitude2 * b.magnitude2)) (-1) eps52 4 true,
         .ulps (V3.cross a V3.unitX).magnitude2 0 eps52 4 false] := by
  simp only [Quat.betweenVectors, h1, h2, h3]; tr_auto_nf
/-- `between_vectors`, opposite vectors, `a × unit_x` vanishes (up to ulps): the axis is `a × unit_y` -/
theorem t_q_between_vectors_opp_y (a b : V3 K) (h1 : ulpsEqD (V3.dot a b) 1 = false)
    (h2 : ulpsEqD (V3.dot a b / Transc.sqrt (a.magnitude2 * b.magnitude2)) (-1) = true)
    (h3 : ulpsEqD (V3.cross a V3.unitX).magnitude2 0 = true) :
    t_q_between_vectors_opp_y (envL (a.toList ++ b.toList)) =
      .okG (Quat.betweenVectors a b).toList
        [.ulps (V3.dot a b) 1 eps52 4 false,
         .ulps (V3.dot a b / Transc.sqrt (a.magnitude2 * b.magnitude2)) (-1) eps52 4 true,
         .ulps (V3.cross a V3.unitX).magnitude2 0 eps52 4 true] := by
  simp only [Quat.betweenVectors, h1, h2, h3]; tr_auto_nf

/-- `from_arc(src, dst, None)`, opposite vectors; `unit_x × src` is not `ulps_eq` to zero (the component-wise
`&&` of the derived `UlpsEq` stops at the z component): half-turn about its normalisation -/
theorem t_q_from_arc_opp_x (a b : V3 K)
    (h1 : ulpsEqD (V3.dot a b) (Transc.sqrt (a.magnitude2 * b.magnitude2)) = false)
    (h2 : ulpsEqD (V3.dot a b) (-Transc.sqrt (a.magnitude2 * b.magnitude2)) = true)
    (h3 : ulpsEqD (V3.cross V3.unitX a).x 0 = true) (h4 : ulpsEqD (V3.cross V3.unitX a).y 0 = true)
    (h5 : ulpsEqD (V3.cross V3.unitX a).z 0 = false) :
    t_q_from_arc_opp_x (envL (a.toList ++ b.toList)) =
      .okG (Quat.fromArc a b none).toList
        [.ulps (V3.dot a b) (Transc.sqrt (a.magnitude2 * b.magnitude2)) eps52 4 false,
         .ulps (V3.dot a b) (-Transc.sqrt (a.magnitude2 * b.magnitude2)) eps52 4 true,
         .ulps (V3.cross V3.unitX a).x 0 eps52 4 true, .ulps (V3.cross V3.unitX a).y 0 eps52 4 true,
         .ulps (V3.cross V3.unitX a).z 0 eps52 4 false] := by
  simp only [Quat.fromArc, V3.ulpsEqZero, h1, h2, h3, h4, h5]; tr_auto_nf
/-- `from_arc(src, dst, None)`, opposite vectors, `unit_x × src` is `ulps_eq` to zero: axis `unit_y × src` -/
theorem t_q_from_arc_opp_y (a b : V3 K)
    (h1 : ulpsEqD (V3.dot a b) (Transc.sqrt (a.magnitude2 * b.magnitude2)) = false)
    (h2 : ulpsEqD (V3.dot a b) (-Transc.sqrt (a.magnitude2 * b.magnitude2)) = true)
    (h3 : ulpsEqD (V3.cross V3.unitX a).x 0 = true) (h4 : ulpsEqD (V3.cross V3.unitX a).y 0 = true)
    (h5 : ulpsEqD (V3.cross V3.unitX a).z 0 = true) :
    t_q_from_arc_opp_y (envL (a.toList ++ b.toList)) =
      .okG (Quat.fromArc a b none).toList
        [.ulps (V3.dot a b) (Transc.sqrt (a.magnitude2 * b.magnitude2)) eps52 4 false,
         .ulps (V3.dot a b) (-Transc.sqrt (a.magnitude2 * b.magnitude2)) eps52 4 true,
         .ulps (V3.cross V3.unitX a).x 0 eps52 4 true, .ulps (V3.cross V3.unitX a).y 0 eps52 4 true,
         .ulps (V3.cross V3.unitX a).z 0 eps52 4 true] := by
  simp only [Quat.fromArc, V3.ulpsEqZero, h1, h2, h3, h4, h5]; tr_auto_nf

/-- `from_arc(src, dst, Some(f))`, opposite vectors: half-turn about the fallback axis, no further comparison -/
theorem t_q_from_arc_fb_opp (a b f : V3 K)
    (h1 : ulpsEqD (V3.dot a b) (Transc.sqrt (a.magnitude2 * b.magnitude2)) = false)
    (h2 : ulpsEqD (V3.dot a b) (-Transc.sqrt (a.magnitude2 * b.magnitude2)) = true) :
    t_q_from_arc_fb_opp (envL (a.toList ++ b.toList ++ f.toList)) =
      .okG (Quat.fromArc a b (some f)).toList
        [.ulps (V3.dot a b) (Transc.sqrt (a.magnitude2 * b.magnitude2)) eps52 4 false,
         .ulps (V3.dot a b) (-Transc.sqrt (a.magnitude2 * b.magnitude2)) eps52 4 true] := by
  simp only [Quat.fromArc, h1, h2]; tr_auto_nf
theorem t_q_from_arc_fb_general (a b f : V3 K)
    (h1 : ulpsEqD (V3.dot a b) (Transc.sqrt (a.magnitude2 * b.magnitude2)) = false)
    (h2 : ulpsEqD (V3.dot a b) (-Transc.sqrt (a.magnitude2 * b.magnitude2)) = false) :
    t_q_from_arc_fb_general (envL (a.toList ++ b.toList ++ f.toList)) =
      .okG (Quat.fromArc a b (some f)).toList
        [.ulps (V3.dot a b) (Transc.sqrt (a.magnitude2 * b.magnitude2)) eps52 4 false,
         .ulps (V3.dot a b) (-Transc.sqrt (a.magnitude2 * b.magnitude2)) eps52 4 false] := by
  simp only [Quat.fromArc, h1, h2]; tr_auto_nf
theorem t_q_from_arc_fb_same (a b f : V3 K)
    (h1 : ulpsEqD (V3.dot a b) (Transc.sqrt (a.magnitude2 * b.magnitude2)) = true) :
    t_q_from_arc_fb_same (envL (a.toList ++ b.toList ++ f.toList)) =
      .okG (Quat.fromArc a b (some f)).toList
        [.ulps (V3.dot a b) (Transc.sqrt (a.magnitude2 * b.magnitude2)) eps52 4 true] := by
  simp only [Quat.fromArc, h1]; tr_auto_nf

/-- `Basis3::between_vectors = Quaternion::between_vectors(a, b).into()` on the general path -/
theorem t_b3_between_vectors_general (a b : V3 K) (h1 : ulpsEqD (V3.dot a b) 1 = false)
    (h2 : ulpsEqD (V3.dot a b / Transc.sqrt (a.magnitude2 * b.magnitude2)) (-1) = false) :
    t_b3_between_vectors_general (envL (a.toList ++ b.toList)) =
      .okG (Basis3.betweenVectors a b).mat.toList
        [.ulps (V3.dot a b) 1 eps52 4 false,
         .ulps (V3.dot a b / Transc.sqrt (a.magnitude2 * b.magnitude2)) (-1) eps52 4 false] := by
  simp only [Basis3.betweenVectors, Quat.betweenVectors, h1, h2]; tr_auto_nf
end Cg.Trace.C15Paths
