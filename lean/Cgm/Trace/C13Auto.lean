import Cgm.Gen.C13
/-! # T obligations for C13, generated once by tools/gen_tobl.py from the driver tables
(static text: the statement is `traced kernel = the model function the driver runs for this op`) -/
set_option linter.unusedSectionVars false
set_option linter.unusedVariables false
set_option linter.unusedSimpArgs false
namespace Cg.Trace.C13Auto
open Cg Cg.Gen.C13
variable {K : Type} [Field K] [Transc K] [FRem K] [Lits K]

theorem t_rad_to_rad (x : K) :
    t_rad_to_rad (envL ([x])) = .okS [(id : K → K) x] := by
  first | tr_any | (simp [List.foldl, envL, Tr.okS, V1.toList, V2.toList, V3.toList, V4.toList, P1.toList, P2.toList, P3.toList, M2.toList, M3.toList, M4.toList, Quat.toList] <;> (repeat' apply And.intro) <;> first | ring1 | (ring_nf; done))
theorem t_deg_to_deg (x : K) :
    t_deg_to_deg (envL ([x])) = .okS [(id : K → K) x] := by
  first | tr_any | (simp [List.foldl, envL, Tr.okS, V1.toList, V2.toList, V3.toList, V4.toList, P1.toList, P2.toList, P3.toList, M2.toList, M3.toList, M4.toList, Quat.toList] <;> (repeat' apply And.intro) <;> first | ring1 | (ring_nf; done))
theorem t_rad_full_turn  :
    t_rad_full_turn (envL (([] : List K))) = .okS [(Lits.radFull : K)] := by
  first | tr_any | (simp [List.foldl, envL, Tr.okS, V1.toList, V2.toList, V3.toList, V4.toList, P1.toList, P2.toList, P3.toList, M2.toList, M3.toList, M4.toList, Quat.toList] <;> (repeat' apply And.intro) <;> first | ring1 | (ring_nf; done))
theorem t_deg_full_turn  :
    t_deg_full_turn (envL (([] : List K))) = .okS [(degFull : K)] := by
  first | tr_any | (simp [List.foldl, envL, Tr.okS, V1.toList, V2.toList, V3.toList, V4.toList, P1.toList, P2.toList, P3.toList, M2.toList, M3.toList, M4.toList, Quat.toList] <;> (repeat' apply And.intro) <;> first | ring1 | (ring_nf; done)) | (simp [degFull, List.foldl, envL, Tr.okS, V1.toList, V2.toList, V3.toList, V4.toList, P1.toList, P2.toList, P3.toList, M2.toList, M3.toList, M4.toList, Quat.toList] <;> (repeat' apply And.intro) <;> first | ring1 | (ring_nf; done))
theorem t_rad_turn_div_2  :
    t_rad_turn_div_2 (envL (([] : List K))) = .okS [Angle.turnDiv (Lits.radFull : K) 2] := by
  first | tr_any | (simp [Angle.turnDiv, List.foldl, envL, Tr.okS, V1.toList, V2.toList, V3.toList, V4.toList, P1.toList, P2.toList, P3.toList, M2.toList, M3.toList, M4.toList, Quat.toList] <;> (repeat' apply And.intro) <;> first | ring1 | (ring_nf; done))
theorem t_deg_turn_div_2  :
    t_deg_turn_div_2 (envL (([] : List K))) = .okS [Angle.turnDiv (degFull : K) 2] := by
  first | tr_any | (simp [Angle.turnDiv, List.foldl, envL, Tr.okS, V1.toList, V2.toList, V3.toList, V4.toList, P1.toList, P2.toList, P3.toList, M2.toList, M3.toList, M4.toList, Quat.toList] <;> (repeat' apply And.intro) <;> first | ring1 | (ring_nf; done)) | (simp [Angle.turnDiv, degFull, List.foldl, envL, Tr.okS, V1.toList, V2.toList, V3.toList, V4.toList, P1.toList, P2.toList, P3.toList, M2.toList, M3.toList, M4.toList, Quat.toList] <;> (repeat' apply And.intro) <;> first | ring1 | (ring_nf; done))
theorem t_rad_turn_div_3  :
    t_rad_turn_div_3 (envL (([] : List K))) = .okS [Angle.turnDiv (Lits.radFull : K) 3] := by
  first | tr_any | (simp [Angle.turnDiv, List.foldl, envL, Tr.okS, V1.toList, V2.toList, V3.toList, V4.toList, P1.toList, P2.toList, P3.toList, M2.toList, M3.toList, M4.toList, Quat.toList] <;> (repeat' apply And.intro) <;> first | ring1 | (ring_nf; done))
theorem t_deg_turn_div_4  :
    t_deg_turn_div_4 (envL (([] : List K))) = .okS [Angle.turnDiv (degFull : K) 4] := by
  first | tr_any | (simp [Angle.turnDiv, List.foldl, envL, Tr.okS, V1.toList, V2.toList, V3.toList, V4.toList, P1.toList, P2.toList, P3.toList, M2.toList, M3.toList, M4.toList, Quat.toList] <;> (repeat' apply And.intro) <;> first | ring1 | (ring_nf; done)) | (simp [Angle.turnDiv, degFull, List.foldl, envL, Tr.okS, V1.toList, V2.toList, V3.toList, V4.toList, P1.toList, P2.toList, P3.toList, M2.toList, M3.toList, M4.toList, Quat.toList] <;> (repeat' apply And.intro) <;> first | ring1 | (ring_nf; done))
theorem t_deg_turn_div_6  :
    t_deg_turn_div_6 (envL (([] : List K))) = .okS [Angle.turnDiv (degFull : K) 6] := by
  first | tr_any | (simp [Angle.turnDiv, List.foldl, envL, Tr.okS, V1.toList, V2.toList, V3.toList, V4.toList, P1.toList, P2.toList, P3.toList, M2.toList, M3.toList, M4.toList, Quat.toList] <;> (repeat' apply And.intro) <;> first | ring1 | (ring_nf; done)) | (simp [Angle.turnDiv, degFull, List.foldl, envL, Tr.okS, V1.toList, V2.toList, V3.toList, V4.toList, P1.toList, P2.toList, P3.toList, M2.toList, M3.toList, M4.toList, Quat.toList] <;> (repeat' apply And.intro) <;> first | ring1 | (ring_nf; done))
theorem t_rad_cos (x : K) :
    t_rad_cos (envL ([x])) = .okS [Rad.cos ((id : K → K) x)] := by
  first | tr_any | (simp [Rad.cos, List.foldl, envL, Tr.okS, V1.toList, V2.toList, V3.toList, V4.toList, P1.toList, P2.toList, P3.toList, M2.toList, M3.toList, M4.toList, Quat.toList] <;> (repeat' apply And.intro) <;> first | ring1 | (ring_nf; done))
theorem t_rad_tan (x : K) :
    t_rad_tan (envL ([x])) = .okS [Rad.tan ((id : K → K) x)] := by
  first | tr_any | (simp [Rad.tan, List.foldl, envL, Tr.okS, V1.toList, V2.toList, V3.toList, V4.toList, P1.toList, P2.toList, P3.toList, M2.toList, M3.toList, M4.toList, Quat.toList] <;> (repeat' apply And.intro) <;> first | ring1 | (ring_nf; done))
theorem t_deg_sin_cos (x : K) :
    t_deg_sin_cos (envL ([x])) = .okS [Rad.sin (degToRad x), Rad.cos (degToRad x)] := by
  first | tr_any | (simp [Rad.cos, Rad.sin, degToRad, List.foldl, envL, Tr.okS, V1.toList, V2.toList, V3.toList, V4.toList, P1.toList, P2.toList, P3.toList, M2.toList, M3.toList, M4.toList, Quat.toList] <;> (repeat' apply And.intro) <;> first | ring1 | (ring_nf; done))
theorem t_rad_csc (x : K) :
    t_rad_csc (envL ([x])) = .okS [Rad.csc ((id : K → K) x)] := by
  first | tr_any | (simp [Rad.csc, List.foldl, envL, Tr.okS, V1.toList, V2.toList, V3.toList, V4.toList, P1.toList, P2.toList, P3.toList, M2.toList, M3.toList, M4.toList, Quat.toList] <;> (repeat' apply And.intro) <;> first | ring1 | (ring_nf; done)) | (simp [Rad.csc, Rad.sin, List.foldl, envL, Tr.okS, V1.toList, V2.toList, V3.toList, V4.toList, P1.toList, P2.toList, P3.toList, M2.toList, M3.toList, M4.toList, Quat.toList] <;> (repeat' apply And.intro) <;> first | ring1 | (ring_nf; done))
theorem t_deg_csc (x : K) :
    t_deg_csc (envL ([x])) = .okS [Rad.csc (degToRad x)] := by
  first | tr_any | (simp [Rad.csc, degToRad, List.foldl, envL, Tr.okS, V1.toList, V2.toList, V3.toList, V4.toList, P1.toList, P2.toList, P3.toList, M2.toList, M3.toList, M4.toList, Quat.toList] <;> (repeat' apply And.intro) <;> first | ring1 | (ring_nf; done)) | (simp [Rad.csc, Rad.sin, degToRad, List.foldl, envL, Tr.okS, V1.toList, V2.toList, V3.toList, V4.toList, P1.toList, P2.toList, P3.toList, M2.toList, M3.toList, M4.toList, Quat.toList] <;> (repeat' apply And.intro) <;> first | ring1 | (ring_nf; done))
theorem t_rad_sec (x : K) :
    t_rad_sec (envL ([x])) = .okS [Rad.sec ((id : K → K) x)] := by
  first | tr_any | (simp [Rad.sec, List.foldl, envL, Tr.okS, V1.toList, V2.toList, V3.toList, V4.toList, P1.toList, P2.toList, P3.toList, M2.toList, M3.toList, M4.toList, Quat.toList] <;> (repeat' apply And.intro) <;> first | ring1 | (ring_nf; done)) | (simp [Rad.cos, Rad.sec, List.foldl, envL, Tr.okS, V1.toList, V2.toList, V3.toList, V4.toList, P1.toList, P2.toList, P3.toList, M2.toList, M3.toList, M4.toList, Quat.toList] <;> (repeat' apply And.intro) <;> first | ring1 | (ring_nf; done))
theorem t_deg_sec (x : K) :
    t_deg_sec (envL ([x])) = .okS [Rad.sec (degToRad x)] := by
  first | tr_any | (simp [Rad.sec, degToRad, List.foldl, envL, Tr.okS, V1.toList, V2.toList, V3.toList, V4.toList, P1.toList, P2.toList, P3.toList, M2.toList, M3.toList, M4.toList, Quat.toList] <;> (repeat' apply And.intro) <;> first | ring1 | (ring_nf; done)) | (simp [Rad.cos, Rad.sec, degToRad, List.foldl, envL, Tr.okS, V1.toList, V2.toList, V3.toList, V4.toList, P1.toList, P2.toList, P3.toList, M2.toList, M3.toList, M4.toList, Quat.toList] <;> (repeat' apply And.intro) <;> first | ring1 | (ring_nf; done))
theorem t_rad_cot (x : K) :
    t_rad_cot (envL ([x])) = .okS [Rad.cot ((id : K → K) x)] := by
  first | tr_any | (simp [Rad.cot, List.foldl, envL, Tr.okS, V1.toList, V2.toList, V3.toList, V4.toList, P1.toList, P2.toList, P3.toList, M2.toList, M3.toList, M4.toList, Quat.toList] <;> (repeat' apply And.intro) <;> first | ring1 | (ring_nf; done)) | (simp [Rad.cot, Rad.tan, List.foldl, envL, Tr.okS, V1.toList, V2.toList, V3.toList, V4.toList, P1.toList, P2.toList, P3.toList, M2.toList, M3.toList, M4.toList, Quat.toList] <;> (repeat' apply And.intro) <;> first | ring1 | (ring_nf; done))
theorem t_deg_cot (x : K) :
    t_deg_cot (envL ([x])) = .okS [Rad.cot (degToRad x)] := by
  first | tr_any | (simp [Rad.cot, degToRad, List.foldl, envL, Tr.okS, V1.toList, V2.toList, V3.toList, V4.toList, P1.toList, P2.toList, P3.toList, M2.toList, M3.toList, M4.toList, Quat.toList] <;> (repeat' apply And.intro) <;> first | ring1 | (ring_nf; done)) | (simp [Rad.cot, Rad.tan, degToRad, List.foldl, envL, Tr.okS, V1.toList, V2.toList, V3.toList, V4.toList, P1.toList, P2.toList, P3.toList, M2.toList, M3.toList, M4.toList, Quat.toList] <;> (repeat' apply And.intro) <;> first | ring1 | (ring_nf; done))
theorem t_rad_asin (x : K) :
    t_rad_asin (envL ([x])) = .okS [(id : K → K) (Rad.asin x)] := by
  first | tr_any | (simp [Rad.asin, List.foldl, envL, Tr.okS, V1.toList, V2.toList, V3.toList, V4.toList, P1.toList, P2.toList, P3.toList, M2.toList, M3.toList, M4.toList, Quat.toList] <;> (repeat' apply And.intro) <;> first | ring1 | (ring_nf; done))
theorem t_rad_atan (x : K) :
    t_rad_atan (envL ([x])) = .okS [(id : K → K) (Rad.atan x)] := by
  first | tr_any | (simp [Rad.atan, List.foldl, envL, Tr.okS, V1.toList, V2.toList, V3.toList, V4.toList, P1.toList, P2.toList, P3.toList, M2.toList, M3.toList, M4.toList, Quat.toList] <;> (repeat' apply And.intro) <;> first | ring1 | (ring_nf; done))
theorem t_rad_atan2 (y : K) (x : K) :
    t_rad_atan2 (envL ([y] ++ [x])) = .okS [(id : K → K) (Rad.atan2 y x)] := by
  first | tr_any | (simp [Rad.atan2, List.foldl, envL, Tr.okS, V1.toList, V2.toList, V3.toList, V4.toList, P1.toList, P2.toList, P3.toList, M2.toList, M3.toList, M4.toList, Quat.toList] <;> (repeat' apply And.intro) <;> first | ring1 | (ring_nf; done))
theorem t_rad_add (x : K) (y : K) :
    t_rad_add (envL ([x] ++ [y])) = .okS [x + y] := by
  first | tr_any | (simp [List.foldl, envL, Tr.okS, V1.toList, V2.toList, V3.toList, V4.toList, P1.toList, P2.toList, P3.toList, M2.toList, M3.toList, M4.toList, Quat.toList] <;> (repeat' apply And.intro) <;> first | ring1 | (ring_nf; done))
theorem t_deg_add (x : K) (y : K) :
    t_deg_add (envL ([x] ++ [y])) = .okS [x + y] := by
  first | tr_any | (simp [List.foldl, envL, Tr.okS, V1.toList, V2.toList, V3.toList, V4.toList, P1.toList, P2.toList, P3.toList, M2.toList, M3.toList, M4.toList, Quat.toList] <;> (repeat' apply And.intro) <;> first | ring1 | (ring_nf; done))
theorem t_rad_sub (x : K) (y : K) :
    t_rad_sub (envL ([x] ++ [y])) = .okS [x - y] := by
  first | tr_any | (simp [List.foldl, envL, Tr.okS, V1.toList, V2.toList, V3.toList, V4.toList, P1.toList, P2.toList, P3.toList, M2.toList, M3.toList, M4.toList, Quat.toList] <;> (repeat' apply And.intro) <;> first | ring1 | (ring_nf; done))
theorem t_deg_sub (x : K) (y : K) :
    t_deg_sub (envL ([x] ++ [y])) = .okS [x - y] := by
  first | tr_any | (simp [List.foldl, envL, Tr.okS, V1.toList, V2.toList, V3.toList, V4.toList, P1.toList, P2.toList, P3.toList, M2.toList, M3.toList, M4.toList, Quat.toList] <;> (repeat' apply And.intro) <;> first | ring1 | (ring_nf; done))
theorem t_rad_neg (x : K) :
    t_rad_neg (envL ([x])) = .okS [-x] := by
  first | tr_any | (simp [List.foldl, envL, Tr.okS, V1.toList, V2.toList, V3.toList, V4.toList, P1.toList, P2.toList, P3.toList, M2.toList, M3.toList, M4.toList, Quat.toList] <;> (repeat' apply And.intro) <;> first | ring1 | (ring_nf; done))
theorem t_deg_neg (x : K) :
    t_deg_neg (envL ([x])) = .okS [-x] := by
  first | tr_any | (simp [List.foldl, envL, Tr.okS, V1.toList, V2.toList, V3.toList, V4.toList, P1.toList, P2.toList, P3.toList, M2.toList, M3.toList, M4.toList, Quat.toList] <;> (repeat' apply And.intro) <;> first | ring1 | (ring_nf; done))
theorem t_rad_mul_s (x : K) (s : K) :
    t_rad_mul_s (envL ([x] ++ [s])) = .okS [x * s] := by
  first | tr_any | (simp [List.foldl, envL, Tr.okS, V1.toList, V2.toList, V3.toList, V4.toList, P1.toList, P2.toList, P3.toList, M2.toList, M3.toList, M4.toList, Quat.toList] <;> (repeat' apply And.intro) <;> first | ring1 | (ring_nf; done))
theorem t_deg_mul_s (x : K) (s : K) :
    t_deg_mul_s (envL ([x] ++ [s])) = .okS [x * s] := by
  first | tr_any | (simp [List.foldl, envL, Tr.okS, V1.toList, V2.toList, V3.toList, V4.toList, P1.toList, P2.toList, P3.toList, M2.toList, M3.toList, M4.toList, Quat.toList] <;> (repeat' apply And.intro) <;> first | ring1 | (ring_nf; done))
theorem t_rad_div_s (x : K) (s : K) :
    t_rad_div_s (envL ([x] ++ [s])) = .okS [x / s] := by
  first | tr_any | (simp [List.foldl, envL, Tr.okS, V1.toList, V2.toList, V3.toList, V4.toList, P1.toList, P2.toList, P3.toList, M2.toList, M3.toList, M4.toList, Quat.toList] <;> (repeat' apply And.intro) <;> first | ring1 | (ring_nf; done))
theorem t_deg_div_s (x : K) (s : K) :
    t_deg_div_s (envL ([x] ++ [s])) = .okS [x / s] := by
  first | tr_any | (simp [List.foldl, envL, Tr.okS, V1.toList, V2.toList, V3.toList, V4.toList, P1.toList, P2.toList, P3.toList, M2.toList, M3.toList, M4.toList, Quat.toList] <;> (repeat' apply And.intro) <;> first | ring1 | (ring_nf; done))
theorem t_rad_div_a (x : K) (y : K) :
    t_rad_div_a (envL ([x] ++ [y])) = .okS [x / y] := by
  first | tr_any | (simp [List.foldl, envL, Tr.okS, V1.toList, V2.toList, V3.toList, V4.toList, P1.toList, P2.toList, P3.toList, M2.toList, M3.toList, M4.toList, Quat.toList] <;> (repeat' apply And.intro) <;> first | ring1 | (ring_nf; done))
theorem t_deg_div_a (x : K) (y : K) :
    t_deg_div_a (envL ([x] ++ [y])) = .okS [x / y] := by
  first | tr_any | (simp [List.foldl, envL, Tr.okS, V1.toList, V2.toList, V3.toList, V4.toList, P1.toList, P2.toList, P3.toList, M2.toList, M3.toList, M4.toList, Quat.toList] <;> (repeat' apply And.intro) <;> first | ring1 | (ring_nf; done))
theorem t_rad_rem (x : K) (y : K) :
    t_rad_rem (envL ([x] ++ [y])) = .okS [FRem.frem x y] := by
  first | tr_any | (simp [List.foldl, envL, Tr.okS, V1.toList, V2.toList, V3.toList, V4.toList, P1.toList, P2.toList, P3.toList, M2.toList, M3.toList, M4.toList, Quat.toList] <;> (repeat' apply And.intro) <;> first | ring1 | (ring_nf; done))
theorem t_deg_rem (x : K) (y : K) :
    t_deg_rem (envL ([x] ++ [y])) = .okS [FRem.frem x y] := by
  first | tr_any | (simp [List.foldl, envL, Tr.okS, V1.toList, V2.toList, V3.toList, V4.toList, P1.toList, P2.toList, P3.toList, M2.toList, M3.toList, M4.toList, Quat.toList] <;> (repeat' apply And.intro) <;> first | ring1 | (ring_nf; done))
theorem t_rad_zero  :
    t_rad_zero (envL (([] : List K))) = .okS [0] := by
  first | tr_any | (simp [List.foldl, envL, Tr.okS, V1.toList, V2.toList, V3.toList, V4.toList, P1.toList, P2.toList, P3.toList, M2.toList, M3.toList, M4.toList, Quat.toList] <;> (repeat' apply And.intro) <;> first | ring1 | (ring_nf; done))
theorem t_deg_zero  :
    t_deg_zero (envL (([] : List K))) = .okS [0] := by
  first | tr_any | (simp [List.foldl, envL, Tr.okS, V1.toList, V2.toList, V3.toList, V4.toList, P1.toList, P2.toList, P3.toList, M2.toList, M3.toList, M4.toList, Quat.toList] <;> (repeat' apply And.intro) <;> first | ring1 | (ring_nf; done))
theorem t_rad_sum_list (l1 : K) (l2 : K) (l3 : K) :
    t_rad_sum_list (envL ([l1] ++ [l2] ++ [l3])) = .okS [[l1, l2, l3].foldl (· + ·) 0] := by
  first | tr_any | (simp [List.foldl, envL, Tr.okS, V1.toList, V2.toList, V3.toList, V4.toList, P1.toList, P2.toList, P3.toList, M2.toList, M3.toList, M4.toList, Quat.toList] <;> (repeat' apply And.intro) <;> first | ring1 | (ring_nf; done))
theorem t_deg_sum_list (l1 : K) (l2 : K) (l3 : K) :
    t_deg_sum_list (envL ([l1] ++ [l2] ++ [l3])) = .okS [[l1, l2, l3].foldl (· + ·) 0] := by
  first | tr_any | (simp [List.foldl, envL, Tr.okS, V1.toList, V2.toList, V3.toList, V4.toList, P1.toList, P2.toList, P3.toList, M2.toList, M3.toList, M4.toList, Quat.toList] <;> (repeat' apply And.intro) <;> first | ring1 | (ring_nf; done))
theorem t_rad_sum_list_ref (l1 : K) (l2 : K) (l3 : K) :
    t_rad_sum_list_ref (envL ([l1] ++ [l2] ++ [l3])) = .okS [[l1, l2, l3].foldl (· + ·) 0] := by
  first | tr_any | (simp [List.foldl, envL, Tr.okS, V1.toList, V2.toList, V3.toList, V4.toList, P1.toList, P2.toList, P3.toList, M2.toList, M3.toList, M4.toList, Quat.toList] <;> (repeat' apply And.intro) <;> first | ring1 | (ring_nf; done))
theorem t_deg_sum_list_ref (l1 : K) (l2 : K) (l3 : K) :
    t_deg_sum_list_ref (envL ([l1] ++ [l2] ++ [l3])) = .okS [[l1, l2, l3].foldl (· + ·) 0] := by
  first | tr_any | (simp [List.foldl, envL, Tr.okS, V1.toList, V2.toList, V3.toList, V4.toList, P1.toList, P2.toList, P3.toList, M2.toList, M3.toList, M4.toList, Quat.toList] <;> (repeat' apply And.intro) <;> first | ring1 | (ring_nf; done))
end Cg.Trace.C13Auto
