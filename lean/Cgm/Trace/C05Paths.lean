import Cgm.Trace.C05
/-! # T obligations for C05, further paths: `Quaternion::from(Basis3)` — the four (five, with `&&` short-circuiting)
paths of `From<Matrix3> for Quaternion` reached through a `Basis3` (which the harness builds from a quaternion) -/
set_option linter.unusedSectionVars false
namespace Cg.Trace.C05Paths
open Cg Cg.Gen.C05
variable {K : Type} [Field K] [LinearOrder K] [Transc K] [FRem K] [Lits K]
attribute [local simp] Basis3.fromQuaternion Quat.toM3 M3.trace

/-- the matrix behind `Basis3::from(q)` -/
abbrev bm (q : Quat K) : M3 K := (Basis3.fromQuaternion q).mat
attribute [local simp] bm

theorem t_b3_to_quat_trace (q : Quat K) (h : 0 ≤ (bm q).trace) :
    t_b3_to_quat_trace (envL q.toList) = .okG (bm q).toQuat.toList [.le 0 (bm q).trace true] := by
  unfold M3.toQuat; simp only [if_pos h]; tr_auto_nf
theorem t_b3_to_quat_xx (q : Quat K) (h : ¬ 0 ≤ (bm q).trace) (h1 : (bm q).y.y < (bm q).x.x) (h2 : (bm q).z.z < (bm q).x.x) :
    t_b3_to_quat_xx (envL q.toList) =
      .okG (bm q).toQuat.toList [.le 0 (bm q).trace false, .lt (bm q).y.y (bm q).x.x true, .lt (bm q).z.z (bm q).x.x true] := by
  unfold M3.toQuat; simp only [if_neg h, h1, h2, and_self, if_true]; tr_auto_nf
theorem t_b3_to_quat_yy (q : Quat K) (h : ¬ 0 ≤ (bm q).trace) (h1 : ¬ (bm q).y.y < (bm q).x.x) (h2 : (bm q).z.z < (bm q).y.y) :
    t_b3_to_quat_yy (envL q.toList) =
      .okG (bm q).toQuat.toList [.le 0 (bm q).trace false, .lt (bm q).y.y (bm q).x.x false, .lt (bm q).z.z (bm q).y.y true] := by
  unfold M3.toQuat; simp only [if_neg h, h1, h2, false_and, if_false, if_true]; tr_auto_nf
theorem t_b3_to_quat_zz (q : Quat K) (h : ¬ 0 ≤ (bm q).trace) (h1 : ¬ (bm q).y.y < (bm q).x.x) (h2 : ¬ (bm q).z.z < (bm q).y.y) :
    t_b3_to_quat_zz (envL q.toList) =
      .okG (bm q).toQuat.toList [.le 0 (bm q).trace false, .lt (bm q).y.y (bm q).x.x false, .lt (bm q).z.z (bm q).y.y false] := by
  unfold M3.toQuat; simp only [if_neg h, h1, h2, false_and, if_false]; tr_auto_nf
theorem t_b3_to_quat_zz2 (q : Quat K) (h : ¬ 0 ≤ (bm q).trace) (h1 : (bm q).y.y < (bm q).x.x) (h2 : ¬ (bm q).z.z < (bm q).x.x)
    (h3 : ¬ (bm q).z.z < (bm q).y.y) :
    t_b3_to_quat_zz2 (envL q.toList) =
      .okG (bm q).toQuat.toList [.le 0 (bm q).trace false, .lt (bm q).y.y (bm q).x.x true, .lt (bm q).z.z (bm q).x.x false,
        .lt (bm q).z.z (bm q).y.y false] := by
  unfold M3.toQuat; simp only [if_neg h, h1, h2, h3, and_false, true_and, if_false]; tr_auto_nf
end Cg.Trace.C05Paths
