import Cgm.Gen.C14
import Cgm.Model.Rot
/-! # T obligations for C14: linear interpolation (every type uses the one `VectorSpace::lerp`) -/
set_option linter.unusedSectionVars false
namespace Cg.Trace.C14
open Cg Cg.Gen.C14
variable {K : Type} [Field K] [LinearOrder K] [Transc K] [FRem K] [Lits K]

theorem t_v3_lerp (a b : V3 K) (t : K) : t_v3_lerp (envL (a.toList ++ b.toList ++ [t])) = .okS (V3.lerp a b t).toList := by tr_auto
theorem t_v4_lerp (a b : V4 K) (t : K) : t_v4_lerp (envL (a.toList ++ b.toList ++ [t])) = .okS (V4.lerp a b t).toList := by tr_auto
/-- traced on a pair with negative dot product: `lerp` makes no comparison at all -/
theorem t_q_lerp (a b : Quat K) (t : K) : t_q_lerp (envL (a.toList ++ b.toList ++ [t])) = .okS (Quat.lerp a b t).toList := by tr_auto

attribute [local simp] Quat.normalize Quat.normalizeTo Quat.magnitude

/-! `nlerp`: one comparison (`dot < 0`), the far end is negated exactly when it is true -/
theorem t_q_nlerp_pos (a b : Quat K) (t : K) (h : ¬ Quat.dot a b < 0) :
    t_q_nlerp_pos (envL (a.toList ++ b.toList ++ [t])) = .okG (Quat.nlerp a b t).toList [.lt (Quat.dot a b) 0 false] := by
  simp only [Quat.nlerp, if_neg h]; tr_auto_nf
theorem t_q_nlerp_neg (a b : Quat K) (t : K) (h : Quat.dot a b < 0) :
    t_q_nlerp_neg (envL (a.toList ++ b.toList ++ [t])) = .okG (Quat.nlerp a b t).toList [.lt (Quat.dot a b) 0 true] := by
  simp only [Quat.nlerp, if_pos h]; tr_auto_nf

/-! `slerp`: `dot < 0` (flip), `0.9995 < dot` (hand-over to nlerp), then the clamp `max(min(dot, 1), -1)` -/
theorem t_q_slerp_far_pos (a b : Quat K) (t : K) (h0 : ¬ Quat.dot a b < 0) (h1 : ¬ Lits.thr < Quat.dot a b)
    (h2 : ¬ (1 : K) < Quat.dot a b) (h3 : ¬ Quat.dot a b < -1) :
    t_q_slerp_far_pos (envL (a.toList ++ b.toList ++ [t])) =
      .okG (Quat.slerp a b t).toList
        [.lt (Quat.dot a b) 0 false, .lt Lits.thr (Quat.dot a b) false, .lt 1 (Quat.dot a b) false,
         .lt (Quat.dot a b) (-1) false] := by
  simp only [Quat.slerp, smax, smin, h0, h1, h2, h3, decide_false, if_false, Bool.false_eq_true]; tr_auto_nf
theorem t_q_slerp_far_neg (a b : Quat K) (t : K) (h0 : Quat.dot a b < 0) (h1 : ¬ Lits.thr < -Quat.dot a b)
    (h2 : ¬ (1 : K) < -Quat.dot a b) (h3 : ¬ -Quat.dot a b < -1) :
    t_q_slerp_far_neg (envL (a.toList ++ b.toList ++ [t])) =
      .okG (Quat.slerp a b t).toList
        [.lt (Quat.dot a b) 0 true, .lt Lits.thr (-Quat.dot a b) false, .lt 1 (-Quat.dot a b) false,
         .lt (-Quat.dot a b) (-1) false] := by
  simp only [Quat.slerp, smax, smin, h0, h1, h2, h3, decide_true, if_true, if_false]; tr_auto_nf
/-- near (`0.9995 < dot`, `dot ≥ 0`): `slerp` is `nlerp`, which tests `dot < 0` again -/
theorem t_q_slerp_near (a b : Quat K) (t : K) (h0 : ¬ Quat.dot a b < 0) (h1 : Lits.thr < Quat.dot a b) :
    t_q_slerp_near (envL (a.toList ++ b.toList ++ [t])) =
      .okG (Quat.slerp a b t).toList
        [.lt (Quat.dot a b) 0 false, .lt Lits.thr (Quat.dot a b) true, .lt (Quat.dot a b) 0 false] := by
  simp only [Quat.slerp, Quat.nlerp, h0, h1, decide_false, if_false, if_true, Bool.false_eq_true]; tr_auto_nf
/-- near with a negative dot product: the far end is negated first, then `nlerp` (whose own test of the sign is then false) -/
theorem t_q_slerp_near_neg (a b : Quat K) (t : K) (h0 : Quat.dot a b < 0) (h1 : Lits.thr < -Quat.dot a b)
    (h2 : ¬ Quat.dot a (-b) < 0) :
    t_q_slerp_near_neg (envL (a.toList ++ b.toList ++ [t])) =
      .okG (Quat.slerp a b t).toList
        [.lt (Quat.dot a b) 0 true, .lt Lits.thr (-Quat.dot a b) true, .lt (Quat.dot a (-b)) 0 false] := by
  simp only [Quat.slerp, Quat.nlerp, h0, h1, h2, decide_true, if_true, if_false]; tr_auto_nf
end Cg.Trace.C14
