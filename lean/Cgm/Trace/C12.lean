import Cgm.Gen.C12
/-! # T obligations for C12: points -/
set_option linter.unusedSectionVars false
namespace Cg.Trace.C12
open Cg Cg.Gen.C12
variable {K : Type} [Field K] [Transc K] [FRem K] [Lits K]

theorem t_p3_from_homogeneous (v : V4 K) : t_p3_from_homogeneous (envL v.toList) = .okS (P3.fromHomogeneous v).toList := by tr_auto
theorem t_p3_to_homogeneous (p : P3 K) : t_p3_to_homogeneous (envL p.toList) = .okS p.toHomogeneous.toList := by tr_auto
theorem t_p3_midpoint (p q : P3 K) : t_p3_midpoint (envL (p.toList ++ q.toList)) = .okS (P3.midpoint p q).toList := by tr_auto
theorem t_p2_midpoint (p q : P2 K) : t_p2_midpoint (envL (p.toList ++ q.toList)) = .okS (P2.midpoint p q).toList := by tr_auto
/-- centroid of a list: traced at lengths 1, 2 (2-D) and 3 (3-D) -/
theorem t_p3_centroid_3 (p q r : P3 K) :
    t_p3_centroid_3 (envL (p.toList ++ q.toList ++ r.toList)) = .okS (P3.centroid [p, q, r]).toList := by
  simp [P3.centroid]; tr_auto
theorem t_p2_centroid_1 (p : P2 K) : t_p2_centroid_1 (envL p.toList) = .okS (P2.centroid [p]).toList := by
  simp [P2.centroid]; tr_auto
theorem t_p2_centroid_2 (p q : P2 K) : t_p2_centroid_2 (envL (p.toList ++ q.toList)) = .okS (P2.centroid [p, q]).toList := by
  simp [P2.centroid]; tr_auto
theorem t_p3_add_v (p : P3 K) (u : V3 K) : t_p3_add_v (envL (p.toList ++ u.toList)) = .okS (p + u).toList := by tr_auto
theorem t_p3_sub_v (p : P3 K) (u : V3 K) : t_p3_sub_v (envL (p.toList ++ u.toList)) = .okS (p - u).toList := by tr_auto
theorem t_p3_sub_p (p q : P3 K) : t_p3_sub_p (envL (p.toList ++ q.toList)) = .okS (p - q).toList := by tr_auto
end Cg.Trace.C12
