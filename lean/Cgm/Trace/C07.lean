import Cgm.Gen.C07
import Cgm.Model.Rot
/-! # T obligations for C07: Euler-angle constructors -/
set_option linter.unusedSectionVars false
namespace Cg.Trace.C07
open Cg Cg.Gen.C07
variable {K : Type} [Field K] [LinearOrder K] [Transc K] [FRem K] [Lits K]
attribute [local simp] M3.eulerSC M3.ofEuler M4.eulerSC M4.ofEuler Quat.eulerSC Quat.ofEuler

theorem t_m3_from_euler (x y z : K) : t_m3_from_euler (envL [x, y, z]) = .okS (M3.ofEuler x y z).toList := by tr_auto
theorem t_m4_from_euler (x y z : K) : t_m4_from_euler (envL [x, y, z]) = .okS (M4.ofEuler x y z).toList := by tr_auto
theorem t_q_from_euler (x y z : K) : t_q_from_euler (envL [x, y, z]) = .okS (Quat.ofEuler x y z).toList := by tr_auto_nf

/-! `From<Quaternion> for Euler<Rad>`: the two comparisons against `0.499 * unit` and the three paths -/
def eTest (q : Quat K) : K := q.v.x * q.v.z + q.v.y * q.s
def eUnit (q : Quat K) : K := q.v.x * q.v.x + q.v.z * q.v.z + q.v.y * q.v.y + q.s * q.s
def eList (e : K × K × K) : List K := [e.1, e.2.1, e.2.2]
attribute [local simp] eTest eUnit eList Angle.turnDiv

theorem t_q_to_euler_main (q : Quat K) (h1 : ¬ Lits.sig * eUnit q < eTest q) (h2 : ¬ eTest q < -Lits.sig * eUnit q) :
    t_q_to_euler_main (envL q.toList) =
      .okG (eList q.toEuler) [.lt (Lits.sig * eUnit q) (eTest q) false, .lt (eTest q) (-Lits.sig * eUnit q) false] := by
  simp only [eTest, eUnit] at h1 h2
  simp only [Quat.toEuler, h1, h2, if_false]; tr_auto_nf
theorem t_q_to_euler_pos (q : Quat K) (h1 : Lits.sig * eUnit q < eTest q) :
    t_q_to_euler_pos (envL q.toList) = .okG (eList q.toEuler) [.lt (Lits.sig * eUnit q) (eTest q) true] := by
  simp only [eTest, eUnit] at h1
  simp only [Quat.toEuler, h1, if_true]; tr_auto_nf
theorem t_q_to_euler_neg (q : Quat K) (h1 : ¬ Lits.sig * eUnit q < eTest q) (h2 : eTest q < -Lits.sig * eUnit q) :
    t_q_to_euler_neg (envL q.toList) =
      .okG (eList q.toEuler) [.lt (Lits.sig * eUnit q) (eTest q) false, .lt (eTest q) (-Lits.sig * eUnit q) true] := by
  simp only [eTest, eUnit] at h1 h2
  simp only [Quat.toEuler, h1, h2, if_false, if_true]; tr_auto_nf
end Cg.Trace.C07
