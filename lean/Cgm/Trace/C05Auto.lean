import Cgm.Gen.C05
/-! # T obligations for C05, generated once by tools/gen_tobl.py from the driver tables
(static text: the statement is `traced kernel = the model function the driver runs for this op`) -/
set_option linter.unusedSectionVars false
set_option linter.unusedVariables false
set_option linter.unusedSimpArgs false
namespace Cg.Trace.C05Auto
open Cg Cg.Gen.C05
variable {K : Type} [Field K] [Transc K] [FRem K] [Lits K]

theorem t_q_to_basis3 (p : Quat K) :
    t_q_to_basis3 (envL (p.toList)) = .okS (Basis3.fromQuaternion p).mat.toList := by
  first | tr_any | (simp [Basis3.fromQuaternion, Quat.distance2, Quat.dot, Quat.magnitude, Quat.magnitude2, Quat.normalizeTo, List.foldl, envL, Tr.okS, V1.toList, V2.toList, V3.toList, V4.toList, P1.toList, P2.toList, P3.toList, M2.toList, M3.toList, M4.toList, Quat.toList] <;> (repeat' apply And.intro) <;> first | ring1 | (ring_nf; done)) | (simp [Basis3.fromQuaternion, M3.new, Quat.fromSv, Quat.new, Quat.toM3, List.foldl, envL, Tr.okS, V1.toList, V2.toList, V3.toList, V4.toList, P1.toList, P2.toList, P3.toList, M2.toList, M3.toList, M4.toList, Quat.toList] <;> (repeat' apply And.intro) <;> first | ring1 | (ring_nf; done))
theorem t_b3_to_m3 (bq : Quat K) :
    t_b3_to_m3 (envL (bq.toList)) = .okS (let b := (Basis3.fromQuaternion bq); b.mat.toList) := by
  first | tr_any | (simp [Basis3.fromQuaternion, Quat.distance2, Quat.dot, Quat.magnitude, Quat.magnitude2, Quat.normalizeTo, List.foldl, envL, Tr.okS, V1.toList, V2.toList, V3.toList, V4.toList, P1.toList, P2.toList, P3.toList, M2.toList, M3.toList, M4.toList, Quat.toList] <;> (repeat' apply And.intro) <;> first | ring1 | (ring_nf; done)) | (simp [Basis3.fromQuaternion, M3.new, Quat.fromSv, Quat.new, Quat.toM3, List.foldl, envL, Tr.okS, V1.toList, V2.toList, V3.toList, V4.toList, P1.toList, P2.toList, P3.toList, M2.toList, M3.toList, M4.toList, Quat.toList] <;> (repeat' apply And.intro) <;> first | ring1 | (ring_nf; done))
theorem t_b3_one  :
    t_b3_one (envL (([] : List K))) = .okS (Basis3.one : Basis3 K).mat.toList := by
  first | tr_any | (simp [Basis3.one, List.foldl, envL, Tr.okS, V1.toList, V2.toList, V3.toList, V4.toList, P1.toList, P2.toList, P3.toList, M2.toList, M3.toList, M4.toList, Quat.toList] <;> (repeat' apply And.intro) <;> first | ring1 | (ring_nf; done)) | (simp [Basis3.one, M3.fromValue, M3.new, M3.one, M3.zero, Quat.fromSv, Quat.one, Quat.zero, V3.fromValue, V3.zero, one, List.foldl, envL, Tr.okS, V1.toList, V2.toList, V3.toList, V4.toList, P1.toList, P2.toList, P3.toList, M2.toList, M3.toList, M4.toList, Quat.toList] <;> (repeat' apply And.intro) <;> first | ring1 | (ring_nf; done))
theorem t_b3_rotate_vector (pq : Quat K) (v : V3 K) :
    t_b3_rotate_vector (envL (pq.toList ++ v.toList)) = .okS (let p := (Basis3.fromQuaternion pq); (p.rotateVector v).toList) := by
  first | tr_any | (simp [Basis3.fromQuaternion, Basis3.rotateVector, Quat.distance2, Quat.dot, Quat.magnitude, Quat.magnitude2, Quat.normalizeTo, Quat.rotateVector, V3.distance2, V3.dot, V3.magnitude, V3.magnitude2, V3.normalizeTo, V3.product, V3.sum, List.foldl, envL, Tr.okS, V1.toList, V2.toList, V3.toList, V4.toList, P1.toList, P2.toList, P3.toList, M2.toList, M3.toList, M4.toList, Quat.toList] <;> (repeat' apply And.intro) <;> first | ring1 | (ring_nf; done)) | (simp [Basis3.fromQuaternion, Basis3.rotateVector, M3.new, Quat.fromSv, Quat.new, Quat.rotateVector, Quat.toM3, List.foldl, envL, Tr.okS, V1.toList, V2.toList, V3.toList, V4.toList, P1.toList, P2.toList, P3.toList, M2.toList, M3.toList, M4.toList, Quat.toList] <;> (repeat' apply And.intro) <;> first | ring1 | (ring_nf; done))
theorem t_b3_rotate_point (pq : Quat K) (v : P3 K) :
    t_b3_rotate_point (envL (pq.toList ++ v.toList)) = .okS (let p := (Basis3.fromQuaternion pq); (p.rotatePoint v).toList) := by
  first | tr_any | (simp [Basis3.fromQuaternion, Basis3.rotatePoint, P3.distance2, P3.dot, P3.fromVec, P3.toVec, Quat.distance2, Quat.dot, Quat.magnitude, Quat.magnitude2, Quat.normalizeTo, Quat.rotatePoint, V3.distance2, V3.dot, V3.magnitude, V3.magnitude2, V3.normalizeTo, V3.product, V3.sum, List.foldl, envL, Tr.okS, V1.toList, V2.toList, V3.toList, V4.toList, P1.toList, P2.toList, P3.toList, M2.toList, M3.toList, M4.toList, Quat.toList] <;> (repeat' apply And.intro) <;> first | ring1 | (ring_nf; done)) | (simp [Basis3.fromQuaternion, Basis3.rotatePoint, Basis3.rotateVector, M3.det, M3.invert, M3.new, M3.transpose, P3.dot, P3.fromVec, P3.mulEw, P3.toVec, Quat.conjugate, Quat.dot, Quat.fromSv, Quat.invert, Quat.magnitude2, Quat.new, Quat.rotatePoint, Quat.rotateVector, Quat.toM3, V3.cross, V3.dot, V3.magnitude2, V3.mulEw, V3.sum, List.foldl, envL, Tr.okS, V1.toList, V2.toList, V3.toList, V4.toList, P1.toList, P2.toList, P3.toList, M2.toList, M3.toList, M4.toList, Quat.toList] <;> (repeat' apply And.intro) <;> first | ring1 | (ring_nf; done))
end Cg.Trace.C05Auto
