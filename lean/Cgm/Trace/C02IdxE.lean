import Cgm.Gen.C02
import Cgm.Lemmas.TraceIdx
/-!
# T obligations for C02: `Matrix4::swap_elements` at all 256 in-range index tuples

Static text (written once by lib/gen_idx_lean.py from the kernel table `cgv.tracetab_paths.IDX`).  Each kernel was traced
from the real function at the literal index tuple in its name, on symbolic matrix entries; the obligation says it is
the model's function at that tuple for every matrix: `Tr.ofPanic` reads the model's `none` as the code's panic.
In range the second conjunct says the model does return (`isSome`, or the value written out); out of range (`_oob`)
the kernel is the bare panic and the model is `none`.
-/
set_option linter.unusedSectionVars false
set_option linter.unusedSimpArgs false
set_option linter.unusedVariables false
namespace Cg.Trace.C02IdxE
open Cg Cg.Gen.C02
variable {K : Type} [Field K] [Transc K] [FRem K] [Lits K]

theorem t_m4_swap_elements_00_00 (m : M4 K) :
    t_m4_swap_elements_00_00 (envL m.toList) = .ofPanic ((m.swapElements? 0 0 0 0).map M4.toList) ∧
      (m.swapElements? 0 0 0 0).isSome := by
  constructor <;> tr_idx

theorem t_m4_swap_elements_00_01 (m : M4 K) :
    t_m4_swap_elements_00_01 (envL m.toList) = .ofPanic ((m.swapElements? 0 0 0 1).map M4.toList) ∧
      (m.swapElements? 0 0 0 1).isSome := by
  constructor <;> tr_idx

theorem t_m4_swap_elements_00_02 (m : M4 K) :
    t_m4_swap_elements_00_02 (envL m.toList) = .ofPanic ((m.swapElements? 0 0 0 2).map M4.toList) ∧
      (m.swapElements? 0 0 0 2).isSome := by
  constructor <;> tr_idx

theorem t_m4_swap_elements_00_03 (m : M4 K) :
    t_m4_swap_elements_00_03 (envL m.toList) = .ofPanic ((m.swapElements? 0 0 0 3).map M4.toList) ∧
      (m.swapElements? 0 0 0 3).isSome := by
  constructor <;> tr_idx

theorem t_m4_swap_elements_00_10 (m : M4 K) :
    t_m4_swap_elements_00_10 (envL m.toList) = .ofPanic ((m.swapElements? 0 0 1 0).map M4.toList) ∧
      (m.swapElements? 0 0 1 0).isSome := by
  constructor <;> tr_idx

theorem t_m4_swap_elements_00_11 (m : M4 K) :
    t_m4_swap_elements_00_11 (envL m.toList) = .ofPanic ((m.swapElements? 0 0 1 1).map M4.toList) ∧
      (m.swapElements? 0 0 1 1).isSome := by
  constructor <;> tr_idx

theorem t_m4_swap_elements_00_12 (m : M4 K) :
    t_m4_swap_elements_00_12 (envL m.toList) = .ofPanic ((m.swapElements? 0 0 1 2).map M4.toList) ∧
      (m.swapElements? 0 0 1 2).isSome := by
  constructor <;> tr_idx

theorem t_m4_swap_elements_00_13 (m : M4 K) :
    t_m4_swap_elements_00_13 (envL m.toList) = .ofPanic ((m.swapElements? 0 0 1 3).map M4.toList) ∧
      (m.swapElements? 0 0 1 3).isSome := by
  constructor <;> tr_idx

theorem t_m4_swap_elements_00_20 (m : M4 K) :
    t_m4_swap_elements_00_20 (envL m.toList) = .ofPanic ((m.swapElements? 0 0 2 0).map M4.toList) ∧
      (m.swapElements? 0 0 2 0).isSome := by
  constructor <;> tr_idx

theorem t_m4_swap_elements_00_21 (m : M4 K) :
    t_m4_swap_elements_00_21 (envL m.toList) = .ofPanic ((m.swapElements? 0 0 2 1).map M4.toList) ∧
      (m.swapElements? 0 0 2 1).isSome := by
  constructor <;> tr_idx

theorem t_m4_swap_elements_00_22 (m : M4 K) :
    t_m4_swap_elements_00_22 (envL m.toList) = .ofPanic ((m.swapElements? 0 0 2 2).map M4.toList) ∧
      (m.swapElements? 0 0 2 2).isSome := by
  constructor <;> tr_idx

theorem t_m4_swap_elements_00_23 (m : M4 K) :
    t_m4_swap_elements_00_23 (envL m.toList) = .ofPanic ((m.swapElements? 0 0 2 3).map M4.toList) ∧
      (m.swapElements? 0 0 2 3).isSome := by
  constructor <;> tr_idx

theorem t_m4_swap_elements_00_30 (m : M4 K) :
    t_m4_swap_elements_00_30 (envL m.toList) = .ofPanic ((m.swapElements? 0 0 3 0).map M4.toList) ∧
      (m.swapElements? 0 0 3 0).isSome := by
  constructor <;> tr_idx

theorem t_m4_swap_elements_00_31 (m : M4 K) :
    t_m4_swap_elements_00_31 (envL m.toList) = .ofPanic ((m.swapElements? 0 0 3 1).map M4.toList) ∧
      (m.swapElements? 0 0 3 1).isSome := by
  constructor <;> tr_idx

theorem t_m4_swap_elements_00_32 (m : M4 K) :
    t_m4_swap_elements_00_32 (envL m.toList) = .ofPanic ((m.swapElements? 0 0 3 2).map M4.toList) ∧
      (m.swapElements? 0 0 3 2).isSome := by
  constructor <;> tr_idx

theorem t_m4_swap_elements_00_33 (m : M4 K) :
    t_m4_swap_elements_00_33 (envL m.toList) = .ofPanic ((m.swapElements? 0 0 3 3).map M4.toList) ∧
      (m.swapElements? 0 0 3 3).isSome := by
  constructor <;> tr_idx

theorem t_m4_swap_elements_01_00 (m : M4 K) :
    t_m4_swap_elements_01_00 (envL m.toList) = .ofPanic ((m.swapElements? 0 1 0 0).map M4.toList) ∧
      (m.swapElements? 0 1 0 0).isSome := by
  constructor <;> tr_idx

theorem t_m4_swap_elements_01_01 (m : M4 K) :
    t_m4_swap_elements_01_01 (envL m.toList) = .ofPanic ((m.swapElements? 0 1 0 1).map M4.toList) ∧
      (m.swapElements? 0 1 0 1).isSome := by
  constructor <;> tr_idx

theorem t_m4_swap_elements_01_02 (m : M4 K) :
    t_m4_swap_elements_01_02 (envL m.toList) = .ofPanic ((m.swapElements? 0 1 0 2).map M4.toList) ∧
      (m.swapElements? 0 1 0 2).isSome := by
  constructor <;> tr_idx

theorem t_m4_swap_elements_01_03 (m : M4 K) :
    t_m4_swap_elements_01_03 (envL m.toList) = .ofPanic ((m.swapElements? 0 1 0 3).map M4.toList) ∧
      (m.swapElements? 0 1 0 3).isSome := by
  constructor <;> tr_idx

theorem t_m4_swap_elements_01_10 (m : M4 K) :
    t_m4_swap_elements_01_10 (envL m.toList) = .ofPanic ((m.swapElements? 0 1 1 0).map M4.toList) ∧
      (m.swapElements? 0 1 1 0).isSome := by
  constructor <;> tr_idx

theorem t_m4_swap_elements_01_11 (m : M4 K) :
    t_m4_swap_elements_01_11 (envL m.toList) = .ofPanic ((m.swapElements? 0 1 1 1).map M4.toList) ∧
      (m.swapElements? 0 1 1 1).isSome := by
  constructor <;> tr_idx

theorem t_m4_swap_elements_01_12 (m : M4 K) :
    t_m4_swap_elements_01_12 (envL m.toList) = .ofPanic ((m.swapElements? 0 1 1 2).map M4.toList) ∧
      (m.swapElements? 0 1 1 2).isSome := by
  constructor <;> tr_idx

theorem t_m4_swap_elements_01_13 (m : M4 K) :
    t_m4_swap_elements_01_13 (envL m.toList) = .ofPanic ((m.swapElements? 0 1 1 3).map M4.toList) ∧
      (m.swapElements? 0 1 1 3).isSome := by
  constructor <;> tr_idx

theorem t_m4_swap_elements_01_20 (m : M4 K) :
    t_m4_swap_elements_01_20 (envL m.toList) = .ofPanic ((m.swapElements? 0 1 2 0).map M4.toList) ∧
      (m.swapElements? 0 1 2 0).isSome := by
  constructor <;> tr_idx

theorem t_m4_swap_elements_01_21 (m : M4 K) :
    t_m4_swap_elements_01_21 (envL m.toList) = .ofPanic ((m.swapElements? 0 1 2 1).map M4.toList) ∧
      (m.swapElements? 0 1 2 1).isSome := by
  constructor <;> tr_idx

theorem t_m4_swap_elements_01_22 (m : M4 K) :
    t_m4_swap_elements_01_22 (envL m.toList) = .ofPanic ((m.swapElements? 0 1 2 2).map M4.toList) ∧
      (m.swapElements? 0 1 2 2).isSome := by
  constructor <;> tr_idx

theorem t_m4_swap_elements_01_23 (m : M4 K) :
    t_m4_swap_elements_01_23 (envL m.toList) = .ofPanic ((m.swapElements? 0 1 2 3).map M4.toList) ∧
      (m.swapElements? 0 1 2 3).isSome := by
  constructor <;> tr_idx

theorem t_m4_swap_elements_01_30 (m : M4 K) :
    t_m4_swap_elements_01_30 (envL m.toList) = .ofPanic ((m.swapElements? 0 1 3 0).map M4.toList) ∧
      (m.swapElements? 0 1 3 0).isSome := by
  constructor <;> tr_idx

theorem t_m4_swap_elements_01_31 (m : M4 K) :
    t_m4_swap_elements_01_31 (envL m.toList) = .ofPanic ((m.swapElements? 0 1 3 1).map M4.toList) ∧
      (m.swapElements? 0 1 3 1).isSome := by
  constructor <;> tr_idx

theorem t_m4_swap_elements_01_32 (m : M4 K) :
    t_m4_swap_elements_01_32 (envL m.toList) = .ofPanic ((m.swapElements? 0 1 3 2).map M4.toList) ∧
      (m.swapElements? 0 1 3 2).isSome := by
  constructor <;> tr_idx

theorem t_m4_swap_elements_01_33 (m : M4 K) :
    t_m4_swap_elements_01_33 (envL m.toList) = .ofPanic ((m.swapElements? 0 1 3 3).map M4.toList) ∧
      (m.swapElements? 0 1 3 3).isSome := by
  constructor <;> tr_idx

theorem t_m4_swap_elements_02_00 (m : M4 K) :
    t_m4_swap_elements_02_00 (envL m.toList) = .ofPanic ((m.swapElements? 0 2 0 0).map M4.toList) ∧
      (m.swapElements? 0 2 0 0).isSome := by
  constructor <;> tr_idx

theorem t_m4_swap_elements_02_01 (m : M4 K) :
    t_m4_swap_elements_02_01 (envL m.toList) = .ofPanic ((m.swapElements? 0 2 0 1).map M4.toList) ∧
      (m.swapElements? 0 2 0 1).isSome := by
  constructor <;> tr_idx

theorem t_m4_swap_elements_02_02 (m : M4 K) :
    t_m4_swap_elements_02_02 (envL m.toList) = .ofPanic ((m.swapElements? 0 2 0 2).map M4.toList) ∧
      (m.swapElements? 0 2 0 2).isSome := by
  constructor <;> tr_idx

theorem t_m4_swap_elements_02_03 (m : M4 K) :
    t_m4_swap_elements_02_03 (envL m.toList) = .ofPanic ((m.swapElements? 0 2 0 3).map M4.toList) ∧
      (m.swapElements? 0 2 0 3).isSome := by
  constructor <;> tr_idx

theorem t_m4_swap_elements_02_10 (m : M4 K) :
    t_m4_swap_elements_02_10 (envL m.toList) = .ofPanic ((m.swapElements? 0 2 1 0).map M4.toList) ∧
      (m.swapElements? 0 2 1 0).isSome := by
  constructor <;> tr_idx

theorem t_m4_swap_elements_02_11 (m : M4 K) :
    t_m4_swap_elements_02_11 (envL m.toList) = .ofPanic ((m.swapElements? 0 2 1 1).map M4.toList) ∧
      (m.swapElements? 0 2 1 1).isSome := by
  constructor <;> tr_idx

theorem t_m4_swap_elements_02_12 (m : M4 K) :
    t_m4_swap_elements_02_12 (envL m.toList) = .ofPanic ((m.swapElements? 0 2 1 2).map M4.toList) ∧
      (m.swapElements? 0 2 1 2).isSome := by
  constructor <;> tr_idx

theorem t_m4_swap_elements_02_13 (m : M4 K) :
    t_m4_swap_elements_02_13 (envL m.toList) = .ofPanic ((m.swapElements? 0 2 1 3).map M4.toList) ∧
      (m.swapElements? 0 2 1 3).isSome := by
  constructor <;> tr_idx

theorem t_m4_swap_elements_02_20 (m : M4 K) :
    t_m4_swap_elements_02_20 (envL m.toList) = .ofPanic ((m.swapElements? 0 2 2 0).map M4.toList) ∧
      (m.swapElements? 0 2 2 0).isSome := by
  constructor <;> tr_idx

theorem t_m4_swap_elements_02_21 (m : M4 K) :
    t_m4_swap_elements_02_21 (envL m.toList) = .ofPanic ((m.swapElements? 0 2 2 1).map M4.toList) ∧
      (m.swapElements? 0 2 2 1).isSome := by
  constructor <;> tr_idx

theorem t_m4_swap_elements_02_22 (m : M4 K) :
    t_m4_swap_elements_02_22 (envL m.toList) = .ofPanic ((m.swapElements? 0 2 2 2).map M4.toList) ∧
      (m.swapElements? 0 2 2 2).isSome := by
  constructor <;> tr_idx

theorem t_m4_swap_elements_02_23 (m : M4 K) :
    t_m4_swap_elements_02_23 (envL m.toList) = .ofPanic ((m.swapElements? 0 2 2 3).map M4.toList) ∧
      (m.swapElements? 0 2 2 3).isSome := by
  constructor <;> tr_idx

theorem t_m4_swap_elements_02_30 (m : M4 K) :
    t_m4_swap_elements_02_30 (envL m.toList) = .ofPanic ((m.swapElements? 0 2 3 0).map M4.toList) ∧
      (m.swapElements? 0 2 3 0).isSome := by
  constructor <;> tr_idx

theorem t_m4_swap_elements_02_31 (m : M4 K) :
    t_m4_swap_elements_02_31 (envL m.toList) = .ofPanic ((m.swapElements? 0 2 3 1).map M4.toList) ∧
      (m.swapElements? 0 2 3 1).isSome := by
  constructor <;> tr_idx

theorem t_m4_swap_elements_02_32 (m : M4 K) :
    t_m4_swap_elements_02_32 (envL m.toList) = .ofPanic ((m.swapElements? 0 2 3 2).map M4.toList) ∧
      (m.swapElements? 0 2 3 2).isSome := by
  constructor <;> tr_idx

theorem t_m4_swap_elements_02_33 (m : M4 K) :
    t_m4_swap_elements_02_33 (envL m.toList) = .ofPanic ((m.swapElements? 0 2 3 3).map M4.toList) ∧
      (m.swapElements? 0 2 3 3).isSome := by
  constructor <;> tr_idx

theorem t_m4_swap_elements_03_00 (m : M4 K) :
    t_m4_swap_elements_03_00 (envL m.toList) = .ofPanic ((m.swapElements? 0 3 0 0).map M4.toList) ∧
      (m.swapElements? 0 3 0 0).isSome := by
  constructor <;> tr_idx

theorem t_m4_swap_elements_03_01 (m : M4 K) :
    t_m4_swap_elements_03_01 (envL m.toList) = .ofPanic ((m.swapElements? 0 3 0 1).map M4.toList) ∧
      (m.swapElements? 0 3 0 1).isSome := by
  constructor <;> tr_idx

theorem t_m4_swap_elements_03_02 (m : M4 K) :
    t_m4_swap_elements_03_02 (envL m.toList) = .ofPanic ((m.swapElements? 0 3 0 2).map M4.toList) ∧
      (m.swapElements? 0 3 0 2).isSome := by
  constructor <;> tr_idx

theorem t_m4_swap_elements_03_03 (m : M4 K) :
    t_m4_swap_elements_03_03 (envL m.toList) = .ofPanic ((m.swapElements? 0 3 0 3).map M4.toList) ∧
      (m.swapElements? 0 3 0 3).isSome := by
  constructor <;> tr_idx

theorem t_m4_swap_elements_03_10 (m : M4 K) :
    t_m4_swap_elements_03_10 (envL m.toList) = .ofPanic ((m.swapElements? 0 3 1 0).map M4.toList) ∧
      (m.swapElements? 0 3 1 0).isSome := by
  constructor <;> tr_idx

theorem t_m4_swap_elements_03_11 (m : M4 K) :
    t_m4_swap_elements_03_11 (envL m.toList) = .ofPanic ((m.swapElements? 0 3 1 1).map M4.toList) ∧
      (m.swapElements? 0 3 1 1).isSome := by
  constructor <;> tr_idx

theorem t_m4_swap_elements_03_12 (m : M4 K) :
    t_m4_swap_elements_03_12 (envL m.toList) = .ofPanic ((m.swapElements? 0 3 1 2).map M4.toList) ∧
      (m.swapElements? 0 3 1 2).isSome := by
  constructor <;> tr_idx

theorem t_m4_swap_elements_03_13 (m : M4 K) :
    t_m4_swap_elements_03_13 (envL m.toList) = .ofPanic ((m.swapElements? 0 3 1 3).map M4.toList) ∧
      (m.swapElements? 0 3 1 3).isSome := by
  constructor <;> tr_idx

theorem t_m4_swap_elements_03_20 (m : M4 K) :
    t_m4_swap_elements_03_20 (envL m.toList) = .ofPanic ((m.swapElements? 0 3 2 0).map M4.toList) ∧
      (m.swapElements? 0 3 2 0).isSome := by
  constructor <;> tr_idx

theorem t_m4_swap_elements_03_21 (m : M4 K) :
    t_m4_swap_elements_03_21 (envL m.toList) = .ofPanic ((m.swapElements? 0 3 2 1).map M4.toList) ∧
      (m.swapElements? 0 3 2 1).isSome := by
  constructor <;> tr_idx

theorem t_m4_swap_elements_03_22 (m : M4 K) :
    t_m4_swap_elements_03_22 (envL m.toList) = .ofPanic ((m.swapElements? 0 3 2 2).map M4.toList) ∧
      (m.swapElements? 0 3 2 2).isSome := by
  constructor <;> tr_idx

theorem t_m4_swap_elements_03_23 (m : M4 K) :
    t_m4_swap_elements_03_23 (envL m.toList) = .ofPanic ((m.swapElements? 0 3 2 3).map M4.toList) ∧
      (m.swapElements? 0 3 2 3).isSome := by
  constructor <;> tr_idx

theorem t_m4_swap_elements_03_30 (m : M4 K) :
    t_m4_swap_elements_03_30 (envL m.toList) = .ofPanic ((m.swapElements? 0 3 3 0).map M4.toList) ∧
      (m.swapElements? 0 3 3 0).isSome := by
  constructor <;> tr_idx

theorem t_m4_swap_elements_03_31 (m : M4 K) :
    t_m4_swap_elements_03_31 (envL m.toList) = .ofPanic ((m.swapElements? 0 3 3 1).map M4.toList) ∧
      (m.swapElements? 0 3 3 1).isSome := by
  constructor <;> tr_idx

theorem t_m4_swap_elements_03_32 (m : M4 K) :
    t_m4_swap_elements_03_32 (envL m.toList) = .ofPanic ((m.swapElements? 0 3 3 2).map M4.toList) ∧
      (m.swapElements? 0 3 3 2).isSome := by
  constructor <;> tr_idx

theorem t_m4_swap_elements_03_33 (m : M4 K) :
    t_m4_swap_elements_03_33 (envL m.toList) = .ofPanic ((m.swapElements? 0 3 3 3).map M4.toList) ∧
      (m.swapElements? 0 3 3 3).isSome := by
  constructor <;> tr_idx

theorem t_m4_swap_elements_10_00 (m : M4 K) :
    t_m4_swap_elements_10_00 (envL m.toList) = .ofPanic ((m.swapElements? 1 0 0 0).map M4.toList) ∧
      (m.swapElements? 1 0 0 0).isSome := by
  constructor <;> tr_idx

theorem t_m4_swap_elements_10_01 (m : M4 K) :
    t_m4_swap_elements_10_01 (envL m.toList) = .ofPanic ((m.swapElements? 1 0 0 1).map M4.toList) ∧
      (m.swapElements? 1 0 0 1).isSome := by
  constructor <;> tr_idx

theorem t_m4_swap_elements_10_02 (m : M4 K) :
    t_m4_swap_elements_10_02 (envL m.toList) = .ofPanic ((m.swapElements? 1 0 0 2).map M4.toList) ∧
      (m.swapElements? 1 0 0 2).isSome := by
  constructor <;> tr_idx

theorem t_m4_swap_elements_10_03 (m : M4 K) :
    t_m4_swap_elements_10_03 (envL m.toList) = .ofPanic ((m.swapElements? 1 0 0 3).map M4.toList) ∧
      (m.swapElements? 1 0 0 3).isSome := by
  constructor <;> tr_idx

theorem t_m4_swap_elements_10_10 (m : M4 K) :
    t_m4_swap_elements_10_10 (envL m.toList) = .ofPanic ((m.swapElements? 1 0 1 0).map M4.toList) ∧
      (m.swapElements? 1 0 1 0).isSome := by
  constructor <;> tr_idx

theorem t_m4_swap_elements_10_11 (m : M4 K) :
    t_m4_swap_elements_10_11 (envL m.toList) = .ofPanic ((m.swapElements? 1 0 1 1).map M4.toList) ∧
      (m.swapElements? 1 0 1 1).isSome := by
  constructor <;> tr_idx

theorem t_m4_swap_elements_10_12 (m : M4 K) :
    t_m4_swap_elements_10_12 (envL m.toList) = .ofPanic ((m.swapElements? 1 0 1 2).map M4.toList) ∧
      (m.swapElements? 1 0 1 2).isSome := by
  constructor <;> tr_idx

theorem t_m4_swap_elements_10_13 (m : M4 K) :
    t_m4_swap_elements_10_13 (envL m.toList) = .ofPanic ((m.swapElements? 1 0 1 3).map M4.toList) ∧
      (m.swapElements? 1 0 1 3).isSome := by
  constructor <;> tr_idx

theorem t_m4_swap_elements_10_20 (m : M4 K) :
    t_m4_swap_elements_10_20 (envL m.toList) = .ofPanic ((m.swapElements? 1 0 2 0).map M4.toList) ∧
      (m.swapElements? 1 0 2 0).isSome := by
  constructor <;> tr_idx

theorem t_m4_swap_elements_10_21 (m : M4 K) :
    t_m4_swap_elements_10_21 (envL m.toList) = .ofPanic ((m.swapElements? 1 0 2 1).map M4.toList) ∧
      (m.swapElements? 1 0 2 1).isSome := by
  constructor <;> tr_idx

theorem t_m4_swap_elements_10_22 (m : M4 K) :
    t_m4_swap_elements_10_22 (envL m.toList) = .ofPanic ((m.swapElements? 1 0 2 2).map M4.toList) ∧
      (m.swapElements? 1 0 2 2).isSome := by
  constructor <;> tr_idx

theorem t_m4_swap_elements_10_23 (m : M4 K) :
    t_m4_swap_elements_10_23 (envL m.toList) = .ofPanic ((m.swapElements? 1 0 2 3).map M4.toList) ∧
      (m.swapElements? 1 0 2 3).isSome := by
  constructor <;> tr_idx

theorem t_m4_swap_elements_10_30 (m : M4 K) :
    t_m4_swap_elements_10_30 (envL m.toList) = .ofPanic ((m.swapElements? 1 0 3 0).map M4.toList) ∧
      (m.swapElements? 1 0 3 0).isSome := by
  constructor <;> tr_idx

theorem t_m4_swap_elements_10_31 (m : M4 K) :
    t_m4_swap_elements_10_31 (envL m.toList) = .ofPanic ((m.swapElements? 1 0 3 1).map M4.toList) ∧
      (m.swapElements? 1 0 3 1).isSome := by
  constructor <;> tr_idx

theorem t_m4_swap_elements_10_32 (m : M4 K) :
    t_m4_swap_elements_10_32 (envL m.toList) = .ofPanic ((m.swapElements? 1 0 3 2).map M4.toList) ∧
      (m.swapElements? 1 0 3 2).isSome := by
  constructor <;> tr_idx

theorem t_m4_swap_elements_10_33 (m : M4 K) :
    t_m4_swap_elements_10_33 (envL m.toList) = .ofPanic ((m.swapElements? 1 0 3 3).map M4.toList) ∧
      (m.swapElements? 1 0 3 3).isSome := by
  constructor <;> tr_idx

theorem t_m4_swap_elements_11_00 (m : M4 K) :
    t_m4_swap_elements_11_00 (envL m.toList) = .ofPanic ((m.swapElements? 1 1 0 0).map M4.toList) ∧
      (m.swapElements? 1 1 0 0).isSome := by
  constructor <;> tr_idx

theorem t_m4_swap_elements_11_01 (m : M4 K) :
    t_m4_swap_elements_11_01 (envL m.toList) = .ofPanic ((m.swapElements? 1 1 0 1).map M4.toList) ∧
      (m.swapElements? 1 1 0 1).isSome := by
  constructor <;> tr_idx

theorem t_m4_swap_elements_11_02 (m : M4 K) :
    t_m4_swap_elements_11_02 (envL m.toList) = .ofPanic ((m.swapElements? 1 1 0 2).map M4.toList) ∧
      (m.swapElements? 1 1 0 2).isSome := by
  constructor <;> tr_idx

theorem t_m4_swap_elements_11_03 (m : M4 K) :
    t_m4_swap_elements_11_03 (envL m.toList) = .ofPanic ((m.swapElements? 1 1 0 3).map M4.toList) ∧
      (m.swapElements? 1 1 0 3).isSome := by
  constructor <;> tr_idx

theorem t_m4_swap_elements_11_10 (m : M4 K) :
    t_m4_swap_elements_11_10 (envL m.toList) = .ofPanic ((m.swapElements? 1 1 1 0).map M4.toList) ∧
      (m.swapElements? 1 1 1 0).isSome := by
  constructor <;> tr_idx

theorem t_m4_swap_elements_11_11 (m : M4 K) :
    t_m4_swap_elements_11_11 (envL m.toList) = .ofPanic ((m.swapElements? 1 1 1 1).map M4.toList) ∧
      (m.swapElements? 1 1 1 1).isSome := by
  constructor <;> tr_idx

theorem t_m4_swap_elements_11_12 (m : M4 K) :
    t_m4_swap_elements_11_12 (envL m.toList) = .ofPanic ((m.swapElements? 1 1 1 2).map M4.toList) ∧
      (m.swapElements? 1 1 1 2).isSome := by
  constructor <;> tr_idx

theorem t_m4_swap_elements_11_13 (m : M4 K) :
    t_m4_swap_elements_11_13 (envL m.toList) = .ofPanic ((m.swapElements? 1 1 1 3).map M4.toList) ∧
      (m.swapElements? 1 1 1 3).isSome := by
  constructor <;> tr_idx

theorem t_m4_swap_elements_11_20 (m : M4 K) :
    t_m4_swap_elements_11_20 (envL m.toList) = .ofPanic ((m.swapElements? 1 1 2 0).map M4.toList) ∧
      (m.swapElements? 1 1 2 0).isSome := by
  constructor <;> tr_idx

theorem t_m4_swap_elements_11_21 (m : M4 K) :
    t_m4_swap_elements_11_21 (envL m.toList) = .ofPanic ((m.swapElements? 1 1 2 1).map M4.toList) ∧
      (m.swapElements? 1 1 2 1).isSome := by
  constructor <;> tr_idx

theorem t_m4_swap_elements_11_22 (m : M4 K) :
    t_m4_swap_elements_11_22 (envL m.toList) = .ofPanic ((m.swapElements? 1 1 2 2).map M4.toList) ∧
      (m.swapElements? 1 1 2 2).isSome := by
  constructor <;> tr_idx

theorem t_m4_swap_elements_11_23 (m : M4 K) :
    t_m4_swap_elements_11_23 (envL m.toList) = .ofPanic ((m.swapElements? 1 1 2 3).map M4.toList) ∧
      (m.swapElements? 1 1 2 3).isSome := by
  constructor <;> tr_idx

theorem t_m4_swap_elements_11_30 (m : M4 K) :
    t_m4_swap_elements_11_30 (envL m.toList) = .ofPanic ((m.swapElements? 1 1 3 0).map M4.toList) ∧
      (m.swapElements? 1 1 3 0).isSome := by
  constructor <;> tr_idx

theorem t_m4_swap_elements_11_31 (m : M4 K) :
    t_m4_swap_elements_11_31 (envL m.toList) = .ofPanic ((m.swapElements? 1 1 3 1).map M4.toList) ∧
      (m.swapElements? 1 1 3 1).isSome := by
  constructor <;> tr_idx

theorem t_m4_swap_elements_11_32 (m : M4 K) :
    t_m4_swap_elements_11_32 (envL m.toList) = .ofPanic ((m.swapElements? 1 1 3 2).map M4.toList) ∧
      (m.swapElements? 1 1 3 2).isSome := by
  constructor <;> tr_idx

theorem t_m4_swap_elements_11_33 (m : M4 K) :
    t_m4_swap_elements_11_33 (envL m.toList) = .ofPanic ((m.swapElements? 1 1 3 3).map M4.toList) ∧
      (m.swapElements? 1 1 3 3).isSome := by
  constructor <;> tr_idx

theorem t_m4_swap_elements_12_00 (m : M4 K) :
    t_m4_swap_elements_12_00 (envL m.toList) = .ofPanic ((m.swapElements? 1 2 0 0).map M4.toList) ∧
      (m.swapElements? 1 2 0 0).isSome := by
  constructor <;> tr_idx

theorem t_m4_swap_elements_12_01 (m : M4 K) :
    t_m4_swap_elements_12_01 (envL m.toList) = .ofPanic ((m.swapElements? 1 2 0 1).map M4.toList) ∧
      (m.swapElements? 1 2 0 1).isSome := by
  constructor <;> tr_idx

theorem t_m4_swap_elements_12_02 (m : M4 K) :
    t_m4_swap_elements_12_02 (envL m.toList) = .ofPanic ((m.swapElements? 1 2 0 2).map M4.toList) ∧
      (m.swapElements? 1 2 0 2).isSome := by
  constructor <;> tr_idx

theorem t_m4_swap_elements_12_03 (m : M4 K) :
    t_m4_swap_elements_12_03 (envL m.toList) = .ofPanic ((m.swapElements? 1 2 0 3).map M4.toList) ∧
      (m.swapElements? 1 2 0 3).isSome := by
  constructor <;> tr_idx

theorem t_m4_swap_elements_12_10 (m : M4 K) :
    t_m4_swap_elements_12_10 (envL m.toList) = .ofPanic ((m.swapElements? 1 2 1 0).map M4.toList) ∧
      (m.swapElements? 1 2 1 0).isSome := by
  constructor <;> tr_idx

theorem t_m4_swap_elements_12_11 (m : M4 K) :
    t_m4_swap_elements_12_11 (envL m.toList) = .ofPanic ((m.swapElements? 1 2 1 1).map M4.toList) ∧
      (m.swapElements? 1 2 1 1).isSome := by
  constructor <;> tr_idx

theorem t_m4_swap_elements_12_12 (m : M4 K) :
    t_m4_swap_elements_12_12 (envL m.toList) = .ofPanic ((m.swapElements? 1 2 1 2).map M4.toList) ∧
      (m.swapElements? 1 2 1 2).isSome := by
  constructor <;> tr_idx

theorem t_m4_swap_elements_12_13 (m : M4 K) :
    t_m4_swap_elements_12_13 (envL m.toList) = .ofPanic ((m.swapElements? 1 2 1 3).map M4.toList) ∧
      (m.swapElements? 1 2 1 3).isSome := by
  constructor <;> tr_idx

theorem t_m4_swap_elements_12_20 (m : M4 K) :
    t_m4_swap_elements_12_20 (envL m.toList) = .ofPanic ((m.swapElements? 1 2 2 0).map M4.toList) ∧
      (m.swapElements? 1 2 2 0).isSome := by
  constructor <;> tr_idx

theorem t_m4_swap_elements_12_21 (m : M4 K) :
    t_m4_swap_elements_12_21 (envL m.toList) = .ofPanic ((m.swapElements? 1 2 2 1).map M4.toList) ∧
      (m.swapElements? 1 2 2 1).isSome := by
  constructor <;> tr_idx

theorem t_m4_swap_elements_12_22 (m : M4 K) :
    t_m4_swap_elements_12_22 (envL m.toList) = .ofPanic ((m.swapElements? 1 2 2 2).map M4.toList) ∧
      (m.swapElements? 1 2 2 2).isSome := by
  constructor <;> tr_idx

theorem t_m4_swap_elements_12_23 (m : M4 K) :
    t_m4_swap_elements_12_23 (envL m.toList) = .ofPanic ((m.swapElements? 1 2 2 3).map M4.toList) ∧
      (m.swapElements? 1 2 2 3).isSome := by
  constructor <;> tr_idx

theorem t_m4_swap_elements_12_30 (m : M4 K) :
    t_m4_swap_elements_12_30 (envL m.toList) = .ofPanic ((m.swapElements? 1 2 3 0).map M4.toList) ∧
      (m.swapElements? 1 2 3 0).isSome := by
  constructor <;> tr_idx

theorem t_m4_swap_elements_12_31 (m : M4 K) :
    t_m4_swap_elements_12_31 (envL m.toList) = .ofPanic ((m.swapElements? 1 2 3 1).map M4.toList) ∧
      (m.swapElements? 1 2 3 1).isSome := by
  constructor <;> tr_idx

theorem t_m4_swap_elements_12_32 (m : M4 K) :
    t_m4_swap_elements_12_32 (envL m.toList) = .ofPanic ((m.swapElements? 1 2 3 2).map M4.toList) ∧
      (m.swapElements? 1 2 3 2).isSome := by
  constructor <;> tr_idx

theorem t_m4_swap_elements_12_33 (m : M4 K) :
    t_m4_swap_elements_12_33 (envL m.toList) = .ofPanic ((m.swapElements? 1 2 3 3).map M4.toList) ∧
      (m.swapElements? 1 2 3 3).isSome := by
  constructor <;> tr_idx

theorem t_m4_swap_elements_13_00 (m : M4 K) :
    t_m4_swap_elements_13_00 (envL m.toList) = .ofPanic ((m.swapElements? 1 3 0 0).map M4.toList) ∧
      (m.swapElements? 1 3 0 0).isSome := by
  constructor <;> tr_idx

theorem t_m4_swap_elements_13_01 (m : M4 K) :
    t_m4_swap_elements_13_01 (envL m.toList) = .ofPanic ((m.swapElements? 1 3 0 1).map M4.toList) ∧
      (m.swapElements? 1 3 0 1).isSome := by
  constructor <;> tr_idx

theorem t_m4_swap_elements_13_02 (m : M4 K) :
    t_m4_swap_elements_13_02 (envL m.toList) = .ofPanic ((m.swapElements? 1 3 0 2).map M4.toList) ∧
      (m.swapElements? 1 3 0 2).isSome := by
  constructor <;> tr_idx

theorem t_m4_swap_elements_13_03 (m : M4 K) :
    t_m4_swap_elements_13_03 (envL m.toList) = .ofPanic ((m.swapElements? 1 3 0 3).map M4.toList) ∧
      (m.swapElements? 1 3 0 3).isSome := by
  constructor <;> tr_idx

theorem t_m4_swap_elements_13_10 (m : M4 K) :
    t_m4_swap_elements_13_10 (envL m.toList) = .ofPanic ((m.swapElements? 1 3 1 0).map M4.toList) ∧
      (m.swapElements? 1 3 1 0).isSome := by
  constructor <;> tr_idx

theorem t_m4_swap_elements_13_11 (m : M4 K) :
    t_m4_swap_elements_13_11 (envL m.toList) = .ofPanic ((m.swapElements? 1 3 1 1).map M4.toList) ∧
      (m.swapElements? 1 3 1 1).isSome := by
  constructor <;> tr_idx

theorem t_m4_swap_elements_13_12 (m : M4 K) :
    t_m4_swap_elements_13_12 (envL m.toList) = .ofPanic ((m.swapElements? 1 3 1 2).map M4.toList) ∧
      (m.swapElements? 1 3 1 2).isSome := by
  constructor <;> tr_idx

theorem t_m4_swap_elements_13_13 (m : M4 K) :
    t_m4_swap_elements_13_13 (envL m.toList) = .ofPanic ((m.swapElements? 1 3 1 3).map M4.toList) ∧
      (m.swapElements? 1 3 1 3).isSome := by
  constructor <;> tr_idx

theorem t_m4_swap_elements_13_20 (m : M4 K) :
    t_m4_swap_elements_13_20 (envL m.toList) = .ofPanic ((m.swapElements? 1 3 2 0).map M4.toList) ∧
      (m.swapElements? 1 3 2 0).isSome := by
  constructor <;> tr_idx

theorem t_m4_swap_elements_13_21 (m : M4 K) :
    t_m4_swap_elements_13_21 (envL m.toList) = .ofPanic ((m.swapElements? 1 3 2 1).map M4.toList) ∧
      (m.swapElements? 1 3 2 1).isSome := by
  constructor <;> tr_idx

theorem t_m4_swap_elements_13_22 (m : M4 K) :
    t_m4_swap_elements_13_22 (envL m.toList) = .ofPanic ((m.swapElements? 1 3 2 2).map M4.toList) ∧
      (m.swapElements? 1 3 2 2).isSome := by
  constructor <;> tr_idx

theorem t_m4_swap_elements_13_23 (m : M4 K) :
    t_m4_swap_elements_13_23 (envL m.toList) = .ofPanic ((m.swapElements? 1 3 2 3).map M4.toList) ∧
      (m.swapElements? 1 3 2 3).isSome := by
  constructor <;> tr_idx

theorem t_m4_swap_elements_13_30 (m : M4 K) :
    t_m4_swap_elements_13_30 (envL m.toList) = .ofPanic ((m.swapElements? 1 3 3 0).map M4.toList) ∧
      (m.swapElements? 1 3 3 0).isSome := by
  constructor <;> tr_idx

theorem t_m4_swap_elements_13_31 (m : M4 K) :
    t_m4_swap_elements_13_31 (envL m.toList) = .ofPanic ((m.swapElements? 1 3 3 1).map M4.toList) ∧
      (m.swapElements? 1 3 3 1).isSome := by
  constructor <;> tr_idx

theorem t_m4_swap_elements_13_32 (m : M4 K) :
    t_m4_swap_elements_13_32 (envL m.toList) = .ofPanic ((m.swapElements? 1 3 3 2).map M4.toList) ∧
      (m.swapElements? 1 3 3 2).isSome := by
  constructor <;> tr_idx

theorem t_m4_swap_elements_13_33 (m : M4 K) :
    t_m4_swap_elements_13_33 (envL m.toList) = .ofPanic ((m.swapElements? 1 3 3 3).map M4.toList) ∧
      (m.swapElements? 1 3 3 3).isSome := by
  constructor <;> tr_idx

theorem t_m4_swap_elements_20_00 (m : M4 K) :
    t_m4_swap_elements_20_00 (envL m.toList) = .ofPanic ((m.swapElements? 2 0 0 0).map M4.toList) ∧
      (m.swapElements? 2 0 0 0).isSome := by
  constructor <;> tr_idx

theorem t_m4_swap_elements_20_01 (m : M4 K) :
    t_m4_swap_elements_20_01 (envL m.toList) = .ofPanic ((m.swapElements? 2 0 0 1).map M4.toList) ∧
      (m.swapElements? 2 0 0 1).isSome := by
  constructor <;> tr_idx

theorem t_m4_swap_elements_20_02 (m : M4 K) :
    t_m4_swap_elements_20_02 (envL m.toList) = .ofPanic ((m.swapElements? 2 0 0 2).map M4.toList) ∧
      (m.swapElements? 2 0 0 2).isSome := by
  constructor <;> tr_idx

theorem t_m4_swap_elements_20_03 (m : M4 K) :
    t_m4_swap_elements_20_03 (envL m.toList) = .ofPanic ((m.swapElements? 2 0 0 3).map M4.toList) ∧
      (m.swapElements? 2 0 0 3).isSome := by
  constructor <;> tr_idx

theorem t_m4_swap_elements_20_10 (m : M4 K) :
    t_m4_swap_elements_20_10 (envL m.toList) = .ofPanic ((m.swapElements? 2 0 1 0).map M4.toList) ∧
      (m.swapElements? 2 0 1 0).isSome := by
  constructor <;> tr_idx

theorem t_m4_swap_elements_20_11 (m : M4 K) :
    t_m4_swap_elements_20_11 (envL m.toList) = .ofPanic ((m.swapElements? 2 0 1 1).map M4.toList) ∧
      (m.swapElements? 2 0 1 1).isSome := by
  constructor <;> tr_idx

theorem t_m4_swap_elements_20_12 (m : M4 K) :
    t_m4_swap_elements_20_12 (envL m.toList) = .ofPanic ((m.swapElements? 2 0 1 2).map M4.toList) ∧
      (m.swapElements? 2 0 1 2).isSome := by
  constructor <;> tr_idx

theorem t_m4_swap_elements_20_13 (m : M4 K) :
    t_m4_swap_elements_20_13 (envL m.toList) = .ofPanic ((m.swapElements? 2 0 1 3).map M4.toList) ∧
      (m.swapElements? 2 0 1 3).isSome := by
  constructor <;> tr_idx

theorem t_m4_swap_elements_20_20 (m : M4 K) :
    t_m4_swap_elements_20_20 (envL m.toList) = .ofPanic ((m.swapElements? 2 0 2 0).map M4.toList) ∧
      (m.swapElements? 2 0 2 0).isSome := by
  constructor <;> tr_idx

theorem t_m4_swap_elements_20_21 (m : M4 K) :
    t_m4_swap_elements_20_21 (envL m.toList) = .ofPanic ((m.swapElements? 2 0 2 1).map M4.toList) ∧
      (m.swapElements? 2 0 2 1).isSome := by
  constructor <;> tr_idx

theorem t_m4_swap_elements_20_22 (m : M4 K) :
    t_m4_swap_elements_20_22 (envL m.toList) = .ofPanic ((m.swapElements? 2 0 2 2).map M4.toList) ∧
      (m.swapElements? 2 0 2 2).isSome := by
  constructor <;> tr_idx

theorem t_m4_swap_elements_20_23 (m : M4 K) :
    t_m4_swap_elements_20_23 (envL m.toList) = .ofPanic ((m.swapElements? 2 0 2 3).map M4.toList) ∧
      (m.swapElements? 2 0 2 3).isSome := by
  constructor <;> tr_idx

theorem t_m4_swap_elements_20_30 (m : M4 K) :
    t_m4_swap_elements_20_30 (envL m.toList) = .ofPanic ((m.swapElements? 2 0 3 0).map M4.toList) ∧
      (m.swapElements? 2 0 3 0).isSome := by
  constructor <;> tr_idx

theorem t_m4_swap_elements_20_31 (m : M4 K) :
    t_m4_swap_elements_20_31 (envL m.toList) = .ofPanic ((m.swapElements? 2 0 3 1).map M4.toList) ∧
      (m.swapElements? 2 0 3 1).isSome := by
  constructor <;> tr_idx

theorem t_m4_swap_elements_20_32 (m : M4 K) :
    t_m4_swap_elements_20_32 (envL m.toList) = .ofPanic ((m.swapElements? 2 0 3 2).map M4.toList) ∧
      (m.swapElements? 2 0 3 2).isSome := by
  constructor <;> tr_idx

theorem t_m4_swap_elements_20_33 (m : M4 K) :
    t_m4_swap_elements_20_33 (envL m.toList) = .ofPanic ((m.swapElements? 2 0 3 3).map M4.toList) ∧
      (m.swapElements? 2 0 3 3).isSome := by
  constructor <;> tr_idx

theorem t_m4_swap_elements_21_00 (m : M4 K) :
    t_m4_swap_elements_21_00 (envL m.toList) = .ofPanic ((m.swapElements? 2 1 0 0).map M4.toList) ∧
      (m.swapElements? 2 1 0 0).isSome := by
  constructor <;> tr_idx

theorem t_m4_swap_elements_21_01 (m : M4 K) :
    t_m4_swap_elements_21_01 (envL m.toList) = .ofPanic ((m.swapElements? 2 1 0 1).map M4.toList) ∧
      (m.swapElements? 2 1 0 1).isSome := by
  constructor <;> tr_idx

theorem t_m4_swap_elements_21_02 (m : M4 K) :
    t_m4_swap_elements_21_02 (envL m.toList) = .ofPanic ((m.swapElements? 2 1 0 2).map M4.toList) ∧
      (m.swapElements? 2 1 0 2).isSome := by
  constructor <;> tr_idx

theorem t_m4_swap_elements_21_03 (m : M4 K) :
    t_m4_swap_elements_21_03 (envL m.toList) = .ofPanic ((m.swapElements? 2 1 0 3).map M4.toList) ∧
      (m.swapElements? 2 1 0 3).isSome := by
  constructor <;> tr_idx

theorem t_m4_swap_elements_21_10 (m : M4 K) :
    t_m4_swap_elements_21_10 (envL m.toList) = .ofPanic ((m.swapElements? 2 1 1 0).map M4.toList) ∧
      (m.swapElements? 2 1 1 0).isSome := by
  constructor <;> tr_idx

theorem t_m4_swap_elements_21_11 (m : M4 K) :
    t_m4_swap_elements_21_11 (envL m.toList) = .ofPanic ((m.swapElements? 2 1 1 1).map M4.toList) ∧
      (m.swapElements? 2 1 1 1).isSome := by
  constructor <;> tr_idx

theorem t_m4_swap_elements_21_12 (m : M4 K) :
    t_m4_swap_elements_21_12 (envL m.toList) = .ofPanic ((m.swapElements? 2 1 1 2).map M4.toList) ∧
      (m.swapElements? 2 1 1 2).isSome := by
  constructor <;> tr_idx

theorem t_m4_swap_elements_21_13 (m : M4 K) :
    t_m4_swap_elements_21_13 (envL m.toList) = .ofPanic ((m.swapElements? 2 1 1 3).map M4.toList) ∧
      (m.swapElements? 2 1 1 3).isSome := by
  constructor <;> tr_idx

theorem t_m4_swap_elements_21_20 (m : M4 K) :
    t_m4_swap_elements_21_20 (envL m.toList) = .ofPanic ((m.swapElements? 2 1 2 0).map M4.toList) ∧
      (m.swapElements? 2 1 2 0).isSome := by
  constructor <;> tr_idx

theorem t_m4_swap_elements_21_21 (m : M4 K) :
    t_m4_swap_elements_21_21 (envL m.toList) = .ofPanic ((m.swapElements? 2 1 2 1).map M4.toList) ∧
      (m.swapElements? 2 1 2 1).isSome := by
  constructor <;> tr_idx

theorem t_m4_swap_elements_21_22 (m : M4 K) :
    t_m4_swap_elements_21_22 (envL m.toList) = .ofPanic ((m.swapElements? 2 1 2 2).map M4.toList) ∧
      (m.swapElements? 2 1 2 2).isSome := by
  constructor <;> tr_idx

theorem t_m4_swap_elements_21_23 (m : M4 K) :
    t_m4_swap_elements_21_23 (envL m.toList) = .ofPanic ((m.swapElements? 2 1 2 3).map M4.toList) ∧
      (m.swapElements? 2 1 2 3).isSome := by
  constructor <;> tr_idx

theorem t_m4_swap_elements_21_30 (m : M4 K) :
    t_m4_swap_elements_21_30 (envL m.toList) = .ofPanic ((m.swapElements? 2 1 3 0).map M4.toList) ∧
      (m.swapElements? 2 1 3 0).isSome := by
  constructor <;> tr_idx

theorem t_m4_swap_elements_21_31 (m : M4 K) :
    t_m4_swap_elements_21_31 (envL m.toList) = .ofPanic ((m.swapElements? 2 1 3 1).map M4.toList) ∧
      (m.swapElements? 2 1 3 1).isSome := by
  constructor <;> tr_idx

theorem t_m4_swap_elements_21_32 (m : M4 K) :
    t_m4_swap_elements_21_32 (envL m.toList) = .ofPanic ((m.swapElements? 2 1 3 2).map M4.toList) ∧
      (m.swapElements? 2 1 3 2).isSome := by
  constructor <;> tr_idx

theorem t_m4_swap_elements_21_33 (m : M4 K) :
    t_m4_swap_elements_21_33 (envL m.toList) = .ofPanic ((m.swapElements? 2 1 3 3).map M4.toList) ∧
      (m.swapElements? 2 1 3 3).isSome := by
  constructor <;> tr_idx

theorem t_m4_swap_elements_22_00 (m : M4 K) :
    t_m4_swap_elements_22_00 (envL m.toList) = .ofPanic ((m.swapElements? 2 2 0 0).map M4.toList) ∧
      (m.swapElements? 2 2 0 0).isSome := by
  constructor <;> tr_idx

theorem t_m4_swap_elements_22_01 (m : M4 K) :
    t_m4_swap_elements_22_01 (envL m.toList) = .ofPanic ((m.swapElements? 2 2 0 1).map M4.toList) ∧
      (m.swapElements? 2 2 0 1).isSome := by
  constructor <;> tr_idx

theorem t_m4_swap_elements_22_02 (m : M4 K) :
    t_m4_swap_elements_22_02 (envL m.toList) = .ofPanic ((m.swapElements? 2 2 0 2).map M4.toList) ∧
      (m.swapElements? 2 2 0 2).isSome := by
  constructor <;> tr_idx

theorem t_m4_swap_elements_22_03 (m : M4 K) :
    t_m4_swap_elements_22_03 (envL m.toList) = .ofPanic ((m.swapElements? 2 2 0 3).map M4.toList) ∧
      (m.swapElements? 2 2 0 3).isSome := by
  constructor <;> tr_idx

theorem t_m4_swap_elements_22_10 (m : M4 K) :
    t_m4_swap_elements_22_10 (envL m.toList) = .ofPanic ((m.swapElements? 2 2 1 0).map M4.toList) ∧
      (m.swapElements? 2 2 1 0).isSome := by
  constructor <;> tr_idx

theorem t_m4_swap_elements_22_11 (m : M4 K) :
    t_m4_swap_elements_22_11 (envL m.toList) = .ofPanic ((m.swapElements? 2 2 1 1).map M4.toList) ∧
      (m.swapElements? 2 2 1 1).isSome := by
  constructor <;> tr_idx

theorem t_m4_swap_elements_22_12 (m : M4 K) :
    t_m4_swap_elements_22_12 (envL m.toList) = .ofPanic ((m.swapElements? 2 2 1 2).map M4.toList) ∧
      (m.swapElements? 2 2 1 2).isSome := by
  constructor <;> tr_idx

theorem t_m4_swap_elements_22_13 (m : M4 K) :
    t_m4_swap_elements_22_13 (envL m.toList) = .ofPanic ((m.swapElements? 2 2 1 3).map M4.toList) ∧
      (m.swapElements? 2 2 1 3).isSome := by
  constructor <;> tr_idx

theorem t_m4_swap_elements_22_20 (m : M4 K) :
    t_m4_swap_elements_22_20 (envL m.toList) = .ofPanic ((m.swapElements? 2 2 2 0).map M4.toList) ∧
      (m.swapElements? 2 2 2 0).isSome := by
  constructor <;> tr_idx

theorem t_m4_swap_elements_22_21 (m : M4 K) :
    t_m4_swap_elements_22_21 (envL m.toList) = .ofPanic ((m.swapElements? 2 2 2 1).map M4.toList) ∧
      (m.swapElements? 2 2 2 1).isSome := by
  constructor <;> tr_idx

theorem t_m4_swap_elements_22_22 (m : M4 K) :
    t_m4_swap_elements_22_22 (envL m.toList) = .ofPanic ((m.swapElements? 2 2 2 2).map M4.toList) ∧
      (m.swapElements? 2 2 2 2).isSome := by
  constructor <;> tr_idx

theorem t_m4_swap_elements_22_23 (m : M4 K) :
    t_m4_swap_elements_22_23 (envL m.toList) = .ofPanic ((m.swapElements? 2 2 2 3).map M4.toList) ∧
      (m.swapElements? 2 2 2 3).isSome := by
  constructor <;> tr_idx

theorem t_m4_swap_elements_22_30 (m : M4 K) :
    t_m4_swap_elements_22_30 (envL m.toList) = .ofPanic ((m.swapElements? 2 2 3 0).map M4.toList) ∧
      (m.swapElements? 2 2 3 0).isSome := by
  constructor <;> tr_idx

theorem t_m4_swap_elements_22_31 (m : M4 K) :
    t_m4_swap_elements_22_31 (envL m.toList) = .ofPanic ((m.swapElements? 2 2 3 1).map M4.toList) ∧
      (m.swapElements? 2 2 3 1).isSome := by
  constructor <;> tr_idx

theorem t_m4_swap_elements_22_32 (m : M4 K) :
    t_m4_swap_elements_22_32 (envL m.toList) = .ofPanic ((m.swapElements? 2 2 3 2).map M4.toList) ∧
      (m.swapElements? 2 2 3 2).isSome := by
  constructor <;> tr_idx

theorem t_m4_swap_elements_22_33 (m : M4 K) :
    t_m4_swap_elements_22_33 (envL m.toList) = .ofPanic ((m.swapElements? 2 2 3 3).map M4.toList) ∧
      (m.swapElements? 2 2 3 3).isSome := by
  constructor <;> tr_idx

theorem t_m4_swap_elements_23_00 (m : M4 K) :
    t_m4_swap_elements_23_00 (envL m.toList) = .ofPanic ((m.swapElements? 2 3 0 0).map M4.toList) ∧
      (m.swapElements? 2 3 0 0).isSome := by
  constructor <;> tr_idx

theorem t_m4_swap_elements_23_01 (m : M4 K) :
    t_m4_swap_elements_23_01 (envL m.toList) = .ofPanic ((m.swapElements? 2 3 0 1).map M4.toList) ∧
      (m.swapElements? 2 3 0 1).isSome := by
  constructor <;> tr_idx

theorem t_m4_swap_elements_23_02 (m : M4 K) :
    t_m4_swap_elements_23_02 (envL m.toList) = .ofPanic ((m.swapElements? 2 3 0 2).map M4.toList) ∧
      (m.swapElements? 2 3 0 2).isSome := by
  constructor <;> tr_idx

theorem t_m4_swap_elements_23_03 (m : M4 K) :
    t_m4_swap_elements_23_03 (envL m.toList) = .ofPanic ((m.swapElements? 2 3 0 3).map M4.toList) ∧
      (m.swapElements? 2 3 0 3).isSome := by
  constructor <;> tr_idx

theorem t_m4_swap_elements_23_10 (m : M4 K) :
    t_m4_swap_elements_23_10 (envL m.toList) = .ofPanic ((m.swapElements? 2 3 1 0).map M4.toList) ∧
      (m.swapElements? 2 3 1 0).isSome := by
  constructor <;> tr_idx

theorem t_m4_swap_elements_23_11 (m : M4 K) :
    t_m4_swap_elements_23_11 (envL m.toList) = .ofPanic ((m.swapElements? 2 3 1 1).map M4.toList) ∧
      (m.swapElements? 2 3 1 1).isSome := by
  constructor <;> tr_idx

theorem t_m4_swap_elements_23_12 (m : M4 K) :
    t_m4_swap_elements_23_12 (envL m.toList) = .ofPanic ((m.swapElements? 2 3 1 2).map M4.toList) ∧
      (m.swapElements? 2 3 1 2).isSome := by
  constructor <;> tr_idx

theorem t_m4_swap_elements_23_13 (m : M4 K) :
    t_m4_swap_elements_23_13 (envL m.toList) = .ofPanic ((m.swapElements? 2 3 1 3).map M4.toList) ∧
      (m.swapElements? 2 3 1 3).isSome := by
  constructor <;> tr_idx

theorem t_m4_swap_elements_23_20 (m : M4 K) :
    t_m4_swap_elements_23_20 (envL m.toList) = .ofPanic ((m.swapElements? 2 3 2 0).map M4.toList) ∧
      (m.swapElements? 2 3 2 0).isSome := by
  constructor <;> tr_idx

theorem t_m4_swap_elements_23_21 (m : M4 K) :
    t_m4_swap_elements_23_21 (envL m.toList) = .ofPanic ((m.swapElements? 2 3 2 1).map M4.toList) ∧
      (m.swapElements? 2 3 2 1).isSome := by
  constructor <;> tr_idx

theorem t_m4_swap_elements_23_22 (m : M4 K) :
    t_m4_swap_elements_23_22 (envL m.toList) = .ofPanic ((m.swapElements? 2 3 2 2).map M4.toList) ∧
      (m.swapElements? 2 3 2 2).isSome := by
  constructor <;> tr_idx

theorem t_m4_swap_elements_23_23 (m : M4 K) :
    t_m4_swap_elements_23_23 (envL m.toList) = .ofPanic ((m.swapElements? 2 3 2 3).map M4.toList) ∧
      (m.swapElements? 2 3 2 3).isSome := by
  constructor <;> tr_idx

theorem t_m4_swap_elements_23_30 (m : M4 K) :
    t_m4_swap_elements_23_30 (envL m.toList) = .ofPanic ((m.swapElements? 2 3 3 0).map M4.toList) ∧
      (m.swapElements? 2 3 3 0).isSome := by
  constructor <;> tr_idx

theorem t_m4_swap_elements_23_31 (m : M4 K) :
    t_m4_swap_elements_23_31 (envL m.toList) = .ofPanic ((m.swapElements? 2 3 3 1).map M4.toList) ∧
      (m.swapElements? 2 3 3 1).isSome := by
  constructor <;> tr_idx

theorem t_m4_swap_elements_23_32 (m : M4 K) :
    t_m4_swap_elements_23_32 (envL m.toList) = .ofPanic ((m.swapElements? 2 3 3 2).map M4.toList) ∧
      (m.swapElements? 2 3 3 2).isSome := by
  constructor <;> tr_idx

theorem t_m4_swap_elements_23_33 (m : M4 K) :
    t_m4_swap_elements_23_33 (envL m.toList) = .ofPanic ((m.swapElements? 2 3 3 3).map M4.toList) ∧
      (m.swapElements? 2 3 3 3).isSome := by
  constructor <;> tr_idx

theorem t_m4_swap_elements_30_00 (m : M4 K) :
    t_m4_swap_elements_30_00 (envL m.toList) = .ofPanic ((m.swapElements? 3 0 0 0).map M4.toList) ∧
      (m.swapElements? 3 0 0 0).isSome := by
  constructor <;> tr_idx

theorem t_m4_swap_elements_30_01 (m : M4 K) :
    t_m4_swap_elements_30_01 (envL m.toList) = .ofPanic ((m.swapElements? 3 0 0 1).map M4.toList) ∧
      (m.swapElements? 3 0 0 1).isSome := by
  constructor <;> tr_idx

theorem t_m4_swap_elements_30_02 (m : M4 K) :
    t_m4_swap_elements_30_02 (envL m.toList) = .ofPanic ((m.swapElements? 3 0 0 2).map M4.toList) ∧
      (m.swapElements? 3 0 0 2).isSome := by
  constructor <;> tr_idx

theorem t_m4_swap_elements_30_03 (m : M4 K) :
    t_m4_swap_elements_30_03 (envL m.toList) = .ofPanic ((m.swapElements? 3 0 0 3).map M4.toList) ∧
      (m.swapElements? 3 0 0 3).isSome := by
  constructor <;> tr_idx

theorem t_m4_swap_elements_30_10 (m : M4 K) :
    t_m4_swap_elements_30_10 (envL m.toList) = .ofPanic ((m.swapElements? 3 0 1 0).map M4.toList) ∧
      (m.swapElements? 3 0 1 0).isSome := by
  constructor <;> tr_idx

theorem t_m4_swap_elements_30_11 (m : M4 K) :
    t_m4_swap_elements_30_11 (envL m.toList) = .ofPanic ((m.swapElements? 3 0 1 1).map M4.toList) ∧
      (m.swapElements? 3 0 1 1).isSome := by
  constructor <;> tr_idx

theorem t_m4_swap_elements_30_12 (m : M4 K) :
    t_m4_swap_elements_30_12 (envL m.toList) = .ofPanic ((m.swapElements? 3 0 1 2).map M4.toList) ∧
      (m.swapElements? 3 0 1 2).isSome := by
  constructor <;> tr_idx

theorem t_m4_swap_elements_30_13 (m : M4 K) :
    t_m4_swap_elements_30_13 (envL m.toList) = .ofPanic ((m.swapElements? 3 0 1 3).map M4.toList) ∧
      (m.swapElements? 3 0 1 3).isSome := by
  constructor <;> tr_idx

theorem t_m4_swap_elements_30_20 (m : M4 K) :
    t_m4_swap_elements_30_20 (envL m.toList) = .ofPanic ((m.swapElements? 3 0 2 0).map M4.toList) ∧
      (m.swapElements? 3 0 2 0).isSome := by
  constructor <;> tr_idx

theorem t_m4_swap_elements_30_21 (m : M4 K) :
    t_m4_swap_elements_30_21 (envL m.toList) = .ofPanic ((m.swapElements? 3 0 2 1).map M4.toList) ∧
      (m.swapElements? 3 0 2 1).isSome := by
  constructor <;> tr_idx

theorem t_m4_swap_elements_30_22 (m : M4 K) :
    t_m4_swap_elements_30_22 (envL m.toList) = .ofPanic ((m.swapElements? 3 0 2 2).map M4.toList) ∧
      (m.swapElements? 3 0 2 2).isSome := by
  constructor <;> tr_idx

theorem t_m4_swap_elements_30_23 (m : M4 K) :
    t_m4_swap_elements_30_23 (envL m.toList) = .ofPanic ((m.swapElements? 3 0 2 3).map M4.toList) ∧
      (m.swapElements? 3 0 2 3).isSome := by
  constructor <;> tr_idx

theorem t_m4_swap_elements_30_30 (m : M4 K) :
    t_m4_swap_elements_30_30 (envL m.toList) = .ofPanic ((m.swapElements? 3 0 3 0).map M4.toList) ∧
      (m.swapElements? 3 0 3 0).isSome := by
  constructor <;> tr_idx

theorem t_m4_swap_elements_30_31 (m : M4 K) :
    t_m4_swap_elements_30_31 (envL m.toList) = .ofPanic ((m.swapElements? 3 0 3 1).map M4.toList) ∧
      (m.swapElements? 3 0 3 1).isSome := by
  constructor <;> tr_idx

theorem t_m4_swap_elements_30_32 (m : M4 K) :
    t_m4_swap_elements_30_32 (envL m.toList) = .ofPanic ((m.swapElements? 3 0 3 2).map M4.toList) ∧
      (m.swapElements? 3 0 3 2).isSome := by
  constructor <;> tr_idx

theorem t_m4_swap_elements_30_33 (m : M4 K) :
    t_m4_swap_elements_30_33 (envL m.toList) = .ofPanic ((m.swapElements? 3 0 3 3).map M4.toList) ∧
      (m.swapElements? 3 0 3 3).isSome := by
  constructor <;> tr_idx

theorem t_m4_swap_elements_31_00 (m : M4 K) :
    t_m4_swap_elements_31_00 (envL m.toList) = .ofPanic ((m.swapElements? 3 1 0 0).map M4.toList) ∧
      (m.swapElements? 3 1 0 0).isSome := by
  constructor <;> tr_idx

theorem t_m4_swap_elements_31_01 (m : M4 K) :
    t_m4_swap_elements_31_01 (envL m.toList) = .ofPanic ((m.swapElements? 3 1 0 1).map M4.toList) ∧
      (m.swapElements? 3 1 0 1).isSome := by
  constructor <;> tr_idx

theorem t_m4_swap_elements_31_02 (m : M4 K) :
    t_m4_swap_elements_31_02 (envL m.toList) = .ofPanic ((m.swapElements? 3 1 0 2).map M4.toList) ∧
      (m.swapElements? 3 1 0 2).isSome := by
  constructor <;> tr_idx

theorem t_m4_swap_elements_31_03 (m : M4 K) :
    t_m4_swap_elements_31_03 (envL m.toList) = .ofPanic ((m.swapElements? 3 1 0 3).map M4.toList) ∧
      (m.swapElements? 3 1 0 3).isSome := by
  constructor <;> tr_idx

theorem t_m4_swap_elements_31_10 (m : M4 K) :
    t_m4_swap_elements_31_10 (envL m.toList) = .ofPanic ((m.swapElements? 3 1 1 0).map M4.toList) ∧
      (m.swapElements? 3 1 1 0).isSome := by
  constructor <;> tr_idx

theorem t_m4_swap_elements_31_11 (m : M4 K) :
    t_m4_swap_elements_31_11 (envL m.toList) = .ofPanic ((m.swapElements? 3 1 1 1).map M4.toList) ∧
      (m.swapElements? 3 1 1 1).isSome := by
  constructor <;> tr_idx

theorem t_m4_swap_elements_31_12 (m : M4 K) :
    t_m4_swap_elements_31_12 (envL m.toList) = .ofPanic ((m.swapElements? 3 1 1 2).map M4.toList) ∧
      (m.swapElements? 3 1 1 2).isSome := by
  constructor <;> tr_idx

theorem t_m4_swap_elements_31_13 (m : M4 K) :
    t_m4_swap_elements_31_13 (envL m.toList) = .ofPanic ((m.swapElements? 3 1 1 3).map M4.toList) ∧
      (m.swapElements? 3 1 1 3).isSome := by
  constructor <;> tr_idx

theorem t_m4_swap_elements_31_20 (m : M4 K) :
    t_m4_swap_elements_31_20 (envL m.toList) = .ofPanic ((m.swapElements? 3 1 2 0).map M4.toList) ∧
      (m.swapElements? 3 1 2 0).isSome := by
  constructor <;> tr_idx

theorem t_m4_swap_elements_31_21 (m : M4 K) :
    t_m4_swap_elements_31_21 (envL m.toList) = .ofPanic ((m.swapElements? 3 1 2 1).map M4.toList) ∧
      (m.swapElements? 3 1 2 1).isSome := by
  constructor <;> tr_idx

theorem t_m4_swap_elements_31_22 (m : M4 K) :
    t_m4_swap_elements_31_22 (envL m.toList) = .ofPanic ((m.swapElements? 3 1 2 2).map M4.toList) ∧
      (m.swapElements? 3 1 2 2).isSome := by
  constructor <;> tr_idx

theorem t_m4_swap_elements_31_23 (m : M4 K) :
    t_m4_swap_elements_31_23 (envL m.toList) = .ofPanic ((m.swapElements? 3 1 2 3).map M4.toList) ∧
      (m.swapElements? 3 1 2 3).isSome := by
  constructor <;> tr_idx

theorem t_m4_swap_elements_31_30 (m : M4 K) :
    t_m4_swap_elements_31_30 (envL m.toList) = .ofPanic ((m.swapElements? 3 1 3 0).map M4.toList) ∧
      (m.swapElements? 3 1 3 0).isSome := by
  constructor <;> tr_idx

theorem t_m4_swap_elements_31_31 (m : M4 K) :
    t_m4_swap_elements_31_31 (envL m.toList) = .ofPanic ((m.swapElements? 3 1 3 1).map M4.toList) ∧
      (m.swapElements? 3 1 3 1).isSome := by
  constructor <;> tr_idx

theorem t_m4_swap_elements_31_32 (m : M4 K) :
    t_m4_swap_elements_31_32 (envL m.toList) = .ofPanic ((m.swapElements? 3 1 3 2).map M4.toList) ∧
      (m.swapElements? 3 1 3 2).isSome := by
  constructor <;> tr_idx

theorem t_m4_swap_elements_31_33 (m : M4 K) :
    t_m4_swap_elements_31_33 (envL m.toList) = .ofPanic ((m.swapElements? 3 1 3 3).map M4.toList) ∧
      (m.swapElements? 3 1 3 3).isSome := by
  constructor <;> tr_idx

theorem t_m4_swap_elements_32_00 (m : M4 K) :
    t_m4_swap_elements_32_00 (envL m.toList) = .ofPanic ((m.swapElements? 3 2 0 0).map M4.toList) ∧
      (m.swapElements? 3 2 0 0).isSome := by
  constructor <;> tr_idx

theorem t_m4_swap_elements_32_01 (m : M4 K) :
    t_m4_swap_elements_32_01 (envL m.toList) = .ofPanic ((m.swapElements? 3 2 0 1).map M4.toList) ∧
      (m.swapElements? 3 2 0 1).isSome := by
  constructor <;> tr_idx

theorem t_m4_swap_elements_32_02 (m : M4 K) :
    t_m4_swap_elements_32_02 (envL m.toList) = .ofPanic ((m.swapElements? 3 2 0 2).map M4.toList) ∧
      (m.swapElements? 3 2 0 2).isSome := by
  constructor <;> tr_idx

theorem t_m4_swap_elements_32_03 (m : M4 K) :
    t_m4_swap_elements_32_03 (envL m.toList) = .ofPanic ((m.swapElements? 3 2 0 3).map M4.toList) ∧
      (m.swapElements? 3 2 0 3).isSome := by
  constructor <;> tr_idx

theorem t_m4_swap_elements_32_10 (m : M4 K) :
    t_m4_swap_elements_32_10 (envL m.toList) = .ofPanic ((m.swapElements? 3 2 1 0).map M4.toList) ∧
      (m.swapElements? 3 2 1 0).isSome := by
  constructor <;> tr_idx

theorem t_m4_swap_elements_32_11 (m : M4 K) :
    t_m4_swap_elements_32_11 (envL m.toList) = .ofPanic ((m.swapElements? 3 2 1 1).map M4.toList) ∧
      (m.swapElements? 3 2 1 1).isSome := by
  constructor <;> tr_idx

theorem t_m4_swap_elements_32_12 (m : M4 K) :
    t_m4_swap_elements_32_12 (envL m.toList) = .ofPanic ((m.swapElements? 3 2 1 2).map M4.toList) ∧
      (m.swapElements? 3 2 1 2).isSome := by
  constructor <;> tr_idx

theorem t_m4_swap_elements_32_13 (m : M4 K) :
    t_m4_swap_elements_32_13 (envL m.toList) = .ofPanic ((m.swapElements? 3 2 1 3).map M4.toList) ∧
      (m.swapElements? 3 2 1 3).isSome := by
  constructor <;> tr_idx

theorem t_m4_swap_elements_32_20 (m : M4 K) :
    t_m4_swap_elements_32_20 (envL m.toList) = .ofPanic ((m.swapElements? 3 2 2 0).map M4.toList) ∧
      (m.swapElements? 3 2 2 0).isSome := by
  constructor <;> tr_idx

theorem t_m4_swap_elements_32_21 (m : M4 K) :
    t_m4_swap_elements_32_21 (envL m.toList) = .ofPanic ((m.swapElements? 3 2 2 1).map M4.toList) ∧
      (m.swapElements? 3 2 2 1).isSome := by
  constructor <;> tr_idx

theorem t_m4_swap_elements_32_22 (m : M4 K) :
    t_m4_swap_elements_32_22 (envL m.toList) = .ofPanic ((m.swapElements? 3 2 2 2).map M4.toList) ∧
      (m.swapElements? 3 2 2 2).isSome := by
  constructor <;> tr_idx

theorem t_m4_swap_elements_32_23 (m : M4 K) :
    t_m4_swap_elements_32_23 (envL m.toList) = .ofPanic ((m.swapElements? 3 2 2 3).map M4.toList) ∧
      (m.swapElements? 3 2 2 3).isSome := by
  constructor <;> tr_idx

theorem t_m4_swap_elements_32_30 (m : M4 K) :
    t_m4_swap_elements_32_30 (envL m.toList) = .ofPanic ((m.swapElements? 3 2 3 0).map M4.toList) ∧
      (m.swapElements? 3 2 3 0).isSome := by
  constructor <;> tr_idx

theorem t_m4_swap_elements_32_31 (m : M4 K) :
    t_m4_swap_elements_32_31 (envL m.toList) = .ofPanic ((m.swapElements? 3 2 3 1).map M4.toList) ∧
      (m.swapElements? 3 2 3 1).isSome := by
  constructor <;> tr_idx

theorem t_m4_swap_elements_32_32 (m : M4 K) :
    t_m4_swap_elements_32_32 (envL m.toList) = .ofPanic ((m.swapElements? 3 2 3 2).map M4.toList) ∧
      (m.swapElements? 3 2 3 2).isSome := by
  constructor <;> tr_idx

theorem t_m4_swap_elements_32_33 (m : M4 K) :
    t_m4_swap_elements_32_33 (envL m.toList) = .ofPanic ((m.swapElements? 3 2 3 3).map M4.toList) ∧
      (m.swapElements? 3 2 3 3).isSome := by
  constructor <;> tr_idx

theorem t_m4_swap_elements_33_00 (m : M4 K) :
    t_m4_swap_elements_33_00 (envL m.toList) = .ofPanic ((m.swapElements? 3 3 0 0).map M4.toList) ∧
      (m.swapElements? 3 3 0 0).isSome := by
  constructor <;> tr_idx

theorem t_m4_swap_elements_33_01 (m : M4 K) :
    t_m4_swap_elements_33_01 (envL m.toList) = .ofPanic ((m.swapElements? 3 3 0 1).map M4.toList) ∧
      (m.swapElements? 3 3 0 1).isSome := by
  constructor <;> tr_idx

theorem t_m4_swap_elements_33_02 (m : M4 K) :
    t_m4_swap_elements_33_02 (envL m.toList) = .ofPanic ((m.swapElements? 3 3 0 2).map M4.toList) ∧
      (m.swapElements? 3 3 0 2).isSome := by
  constructor <;> tr_idx

theorem t_m4_swap_elements_33_03 (m : M4 K) :
    t_m4_swap_elements_33_03 (envL m.toList) = .ofPanic ((m.swapElements? 3 3 0 3).map M4.toList) ∧
      (m.swapElements? 3 3 0 3).isSome := by
  constructor <;> tr_idx

theorem t_m4_swap_elements_33_10 (m : M4 K) :
    t_m4_swap_elements_33_10 (envL m.toList) = .ofPanic ((m.swapElements? 3 3 1 0).map M4.toList) ∧
      (m.swapElements? 3 3 1 0).isSome := by
  constructor <;> tr_idx

theorem t_m4_swap_elements_33_11 (m : M4 K) :
    t_m4_swap_elements_33_11 (envL m.toList) = .ofPanic ((m.swapElements? 3 3 1 1).map M4.toList) ∧
      (m.swapElements? 3 3 1 1).isSome := by
  constructor <;> tr_idx

theorem t_m4_swap_elements_33_12 (m : M4 K) :
    t_m4_swap_elements_33_12 (envL m.toList) = .ofPanic ((m.swapElements? 3 3 1 2).map M4.toList) ∧
      (m.swapElements? 3 3 1 2).isSome := by
  constructor <;> tr_idx

theorem t_m4_swap_elements_33_13 (m : M4 K) :
    t_m4_swap_elements_33_13 (envL m.toList) = .ofPanic ((m.swapElements? 3 3 1 3).map M4.toList) ∧
      (m.swapElements? 3 3 1 3).isSome := by
  constructor <;> tr_idx

theorem t_m4_swap_elements_33_20 (m : M4 K) :
    t_m4_swap_elements_33_20 (envL m.toList) = .ofPanic ((m.swapElements? 3 3 2 0).map M4.toList) ∧
      (m.swapElements? 3 3 2 0).isSome := by
  constructor <;> tr_idx

theorem t_m4_swap_elements_33_21 (m : M4 K) :
    t_m4_swap_elements_33_21 (envL m.toList) = .ofPanic ((m.swapElements? 3 3 2 1).map M4.toList) ∧
      (m.swapElements? 3 3 2 1).isSome := by
  constructor <;> tr_idx

theorem t_m4_swap_elements_33_22 (m : M4 K) :
    t_m4_swap_elements_33_22 (envL m.toList) = .ofPanic ((m.swapElements? 3 3 2 2).map M4.toList) ∧
      (m.swapElements? 3 3 2 2).isSome := by
  constructor <;> tr_idx

theorem t_m4_swap_elements_33_23 (m : M4 K) :
    t_m4_swap_elements_33_23 (envL m.toList) = .ofPanic ((m.swapElements? 3 3 2 3).map M4.toList) ∧
      (m.swapElements? 3 3 2 3).isSome := by
  constructor <;> tr_idx

theorem t_m4_swap_elements_33_30 (m : M4 K) :
    t_m4_swap_elements_33_30 (envL m.toList) = .ofPanic ((m.swapElements? 3 3 3 0).map M4.toList) ∧
      (m.swapElements? 3 3 3 0).isSome := by
  constructor <;> tr_idx

theorem t_m4_swap_elements_33_31 (m : M4 K) :
    t_m4_swap_elements_33_31 (envL m.toList) = .ofPanic ((m.swapElements? 3 3 3 1).map M4.toList) ∧
      (m.swapElements? 3 3 3 1).isSome := by
  constructor <;> tr_idx

theorem t_m4_swap_elements_33_32 (m : M4 K) :
    t_m4_swap_elements_33_32 (envL m.toList) = .ofPanic ((m.swapElements? 3 3 3 2).map M4.toList) ∧
      (m.swapElements? 3 3 3 2).isSome := by
  constructor <;> tr_idx

theorem t_m4_swap_elements_33_33 (m : M4 K) :
    t_m4_swap_elements_33_33 (envL m.toList) = .ofPanic ((m.swapElements? 3 3 3 3).map M4.toList) ∧
      (m.swapElements? 3 3 3 3).isSome := by
  constructor <;> tr_idx
end Cg.Trace.C02IdxE
