import Cgm.Trace.Cover2
/-!
# Layer T: which inputs the traced paths cover -- C13 completed

`Cgm/Trace/Cover2.lean` left, for `Angle::normalize_signed`, `opposite` and `bisect`, explicit lists of untraced paths
(`degNormalizeSignedUntraced`, `radNormalizeSignedUntraced`, `radOppositeUntraced`, the eight classes of `degBisectUntraced`, and
all of `Rad::bisect` but two paths).  `Cgm/Trace/C13More.lean` traces every one of them that is the path of some input.  This file
restates the lists (over the model only: no generated code is imported; `Cgm/Trace/CoverLink3.lean` checks each entry against the
hypotheses of the cited obligation) once for an arbitrary full turn `T` -- the Rust code is the same default method for both units
-- and instantiates them at `360` and at `Lits.radFull`.

The only syntactic paths that remain untraced are those where the remainder is `0` and the three-way comparison
`turn_div_2 ? 0` is NOT `Greater`: they are the paths of no input when `0 < T / 2` (there is no shadow input that drives them), which
holds in an ordered field for `T = 360`, and for `T = Lits.radFull` as soon as the literal is positive.  So:

* `…_partition_excl`, `…_partition_all` : traced paths and that one untraced class are pairwise exclusive and exhaustive in any
  `Field` with any `LinearOrder`;
* `…_excl`  : the traced paths are pairwise exclusive;
* `…_cover` : `AnyOf paths ↔ ¬ (rem = 0 ∧ ¬ 0 < T / 2)` (the exact remainder);
* `…_cover_of_pos` / `deg_…_cover_ordered` / `rad_…_cover_ordered` : `AnyOf paths ↔ True` when `0 < T / 2`, resp. in an ordered
  field (for `Rad`: with `0 < Lits.radFull`).
* `…_extends` : the lists of `Cover2.lean` are prefixes of the lists here (the old entries keep their positions).
-/
set_option linter.unusedSectionVars false
set_option linter.unusedSimpArgs false
set_option linter.unusedVariables false
namespace Cg.Trace.Cover3
open Cg Cg.Trace.Cover Cg.Trace.Cover2

variable {K : Type} [Field K] [LinearOrder K]

section C13
variable [FRem K] [Lits K]

/-! ## `normalize_signed`: `rem ? 0` (`Less`: the remainder is lifted by `T`), then `T/2 ? lifted` -/

/-- the seven path conditions of `normalize_signed` for a unit with full turn `T` (outcomes of the two three-way comparisons) -/
def normalizeSignedPaths (T a : K) : List Prop :=
  [ 0 < FRem.frem a T ∧ T / 2 < FRem.frem a T,  -- 0: hi (gt, lt)
    0 < FRem.frem a T ∧ FRem.frem a T < T / 2,  -- 1: lo (gt, gt)
    FRem.frem a T < 0 ∧ T / 2 < FRem.frem a T + T,  -- 2: neg_hi (lt, lt)
    FRem.frem a T < 0 ∧ FRem.frem a T + T < T / 2,  -- 3: neg_lo (lt, gt)
    FRem.frem a T = 0 ∧ (0 : K) < T / 2,  -- 4: zero (eq, gt)
    0 < FRem.frem a T ∧ FRem.frem a T = T / 2,  -- 5: half (gt, eq)
    FRem.frem a T < 0 ∧ FRem.frem a T + T = T / 2 ]  -- 6: neg_half (lt, eq)
/-- the one untraced class: remainder zero and `T/2 ? 0` not `Greater` (two syntactic paths, `Equal` and `Less`) -/
def normalizeSignedUntraced (T a : K) : List Prop := [ FRem.frem a T = 0 ∧ ¬ (0 : K) < T / 2 ]

theorem normalize_signed_partition_excl (T a : K) : Excl (normalizeSignedPaths T a ++ normalizeSignedUntraced T a) := by
  simp only [normalizeSignedPaths, normalizeSignedUntraced, List.cons_append, List.nil_append, AnyOf, Excl]
  generalize FRem.frem a T + T = r'
  generalize FRem.frem a T = r
  generalize T / 2 = H
  excl_tac
theorem normalize_signed_partition_all (T a : K) : AnyOf (normalizeSignedPaths T a ++ normalizeSignedUntraced T a) := by
  simp only [normalizeSignedPaths, normalizeSignedUntraced, List.cons_append, List.nil_append, AnyOf, Excl]
  generalize FRem.frem a T + T = r'
  generalize FRem.frem a T = r
  generalize T / 2 = H
  grind (splits := 40)
theorem normalize_signed_excl (T a : K) : Excl (normalizeSignedPaths T a) :=
  excl_append_left _ _ (normalize_signed_partition_excl T a)
/-- the exact remainder, in any linear order -/
theorem normalize_signed_cover (T a : K) :
    AnyOf (normalizeSignedPaths T a) ↔ ¬ (FRem.frem a T = 0 ∧ ¬ (0 : K) < T / 2) := by
  rw [cover_of_partition _ _ (normalize_signed_partition_excl T a) (normalize_signed_partition_all T a)]
  simp only [normalizeSignedUntraced, AnyOf, or_false]
/-- EXHAUSTIVE when the half turn is positive -/
theorem normalize_signed_cover_of_pos (T a : K) (hT : (0 : K) < T / 2) : AnyOf (normalizeSignedPaths T a) ↔ True := by
  rw [normalize_signed_cover]; simp only [hT, not_true_eq_false, and_false, not_false_eq_true]

/-- `Deg::normalize_signed`: `t_deg_normalize_signed_hi`, `…_lo`, `…_neg_hi`, `…_neg_lo` (`Trace/C13.lean`),
`C13Paths.t_deg_normalize_signed_zero`, `…_half`, and now `C13More.t_deg_normalize_signed_neg_half` (remainder `-180`) -/
def degNormalizeSignedPaths (a : K) : List Prop := normalizeSignedPaths (360 : K) a
/-- `Rad::normalize_signed`: `t_rad_normalize_signed_hi`, `…_lo` (`Trace/C13.lean`), and now `C13More.t_rad_normalize_signed_neg_hi`,
`…_neg_lo`, `…_zero`, `…_half`, `…_neg_half` -/
def radNormalizeSignedPaths (a : K) : List Prop := normalizeSignedPaths (Lits.radFull : K) a
theorem deg_normalize_signed_extends (a : K) :
    degNormalizeSignedPaths a = Cover2.degNormalizeSignedPaths a ++
      [ FRem.frem a (360 : K) < 0 ∧ FRem.frem a 360 + 360 = (360 : K) / 2 ] := rfl
theorem rad_normalize_signed_extends (a : K) :
    ∃ l, radNormalizeSignedPaths a = Cover2.radNormalizeSignedPaths a ++ l ∧ l.length = 5 := ⟨_, rfl, rfl⟩
theorem deg_normalize_signed_excl (a : K) : Excl (degNormalizeSignedPaths a) := normalize_signed_excl _ a
theorem rad_normalize_signed_excl (a : K) : Excl (radNormalizeSignedPaths a) := normalize_signed_excl _ a
theorem deg_normalize_signed_cover (a : K) :
    AnyOf (degNormalizeSignedPaths a) ↔ ¬ (FRem.frem a (360 : K) = 0 ∧ ¬ (0 : K) < 360 / 2) := normalize_signed_cover _ a
theorem rad_normalize_signed_cover (a : K) :
    AnyOf (radNormalizeSignedPaths a) ↔ ¬ (FRem.frem a (Lits.radFull : K) = 0 ∧ ¬ (0 : K) < Lits.radFull / 2) :=
  normalize_signed_cover _ a
/-- EXHAUSTIVE over an ordered field (was: all but the remainder `-180`) -/
theorem deg_normalize_signed_cover_ordered [IsStrictOrderedRing K] (a : K) : AnyOf (degNormalizeSignedPaths a) ↔ True :=
  normalize_signed_cover_of_pos _ a (by norm_num)
/-- EXHAUSTIVE over an ordered field in which the literal full turn is positive (was: positive remainder other than the half turn) -/
theorem rad_normalize_signed_cover_ordered [IsStrictOrderedRing K] (hT : (0 : K) < Lits.radFull) (a : K) :
    AnyOf (radNormalizeSignedPaths a) ↔ True :=
  normalize_signed_cover_of_pos _ a (half_pos hT)
/-- what `Cover2.rad_normalize_signed_complement` left untraced is now traced: each of its classes is a union of new paths
(when the half turn is positive) -/
theorem rad_normalize_signed_untraced_now_traced (a : K) (hT : (0 : K) < Lits.radFull / 2)
    (h : AnyOf (Cover2.radNormalizeSignedUntraced a)) :
    nth (radNormalizeSignedPaths a) 2 ∨ nth (radNormalizeSignedPaths a) 3 ∨ nth (radNormalizeSignedPaths a) 4 ∨
    nth (radNormalizeSignedPaths a) 5 ∨ nth (radNormalizeSignedPaths a) 6 := by
  simp only [Cover2.radNormalizeSignedUntraced, Cover.radNormalizeSignedUntraced, radNormalizeSignedPaths, normalizeSignedPaths,
    AnyOf, nth] at h ⊢
  generalize FRem.frem a (Lits.radFull : K) + Lits.radFull = r' at *
  generalize FRem.frem a (Lits.radFull : K) = r at *
  generalize (Lits.radFull : K) / 2 = H at *
  grind (splits := 40)

/-! ## `opposite` = `normalize(self + turn_div_2)`: one comparison `rem ? 0` -/

/-- the three path conditions of `opposite` -/
def oppositePaths (T a : K) : List Prop :=
  [ 0 < FRem.frem (a + T / 2) T,  -- 0: pos (gt)
    FRem.frem (a + T / 2) T < 0,  -- 1: neg (lt)
    FRem.frem (a + T / 2) T = 0 ]  -- 2: zero (eq)
theorem opposite_excl (T a : K) : Excl (oppositePaths T a) := by
  simp only [oppositePaths, AnyOf, Excl]; grind
/-- EXHAUSTIVE in any linear order -/
theorem opposite_cover (T a : K) : AnyOf (oppositePaths T a) ↔ True := by
  simp only [oppositePaths, AnyOf, Excl]; grind
/-- `Deg::opposite`: `t_deg_opposite`, `t_deg_opposite_neg`, `C13Paths.t_deg_opposite_zero` (unchanged: `Cover2.degOppositePaths`) -/
def degOppositePaths (a : K) : List Prop := oppositePaths (360 : K) a
/-- `Rad::opposite`: `t_rad_opposite`, and now `C13More.t_rad_opposite_neg`, `C13More.t_rad_opposite_zero` -/
def radOppositePaths (a : K) : List Prop := oppositePaths (Lits.radFull : K) a
theorem deg_opposite_same (a : K) : degOppositePaths a = Cover2.degOppositePaths a := rfl
theorem rad_opposite_extends (a : K) : radOppositePaths a = Cover2.radOppositePaths a ++ Cover2.radOppositeUntraced a := rfl
theorem deg_opposite_excl (a : K) : Excl (degOppositePaths a) := opposite_excl _ a
theorem rad_opposite_excl (a : K) : Excl (radOppositePaths a) := opposite_excl _ a
theorem deg_opposite_cover (a : K) : AnyOf (degOppositePaths a) ↔ True := opposite_cover _ a
/-- EXHAUSTIVE (was: remainder of `a + π` positive).  Nothing remains untraced. -/
theorem rad_opposite_cover (a : K) : AnyOf (radOppositePaths a) ↔ True := opposite_cover _ a

/-! ## `bisect` (as repaired) = `normalize(self + normalize_signed(other - self) * 0.5)`

three three-way comparisons: `d ? 0` with `d = (b - a) % T`, `T/2 ? d'` with `d'` the lifted `d`, `m ? 0` with `m` the remainder of the
midpoint before the last `normalize`: 27 syntactic paths, 21 listed here (all traced), 6 in the untraced class `d = 0 ∧ ¬ 0 < T/2`. -/

/-- the twenty-one path conditions of `bisect` for a unit with full turn `T`; on the `same` paths (`d = 0`) the second comparison
is `T/2 ? 0` and the midpoint is `a + 0 * 0.5` -/
def bisectPaths (T a b : K) : List Prop :=
  [ 0 < FRem.frem (b - a) T ∧ FRem.frem (b - a) T < T / 2 ∧ 0 < FRem.frem (a + FRem.frem (b - a) T * (1 / 2)) T,  -- 0: near (gt, gt, gt)
    0 < FRem.frem (b - a) T ∧ T / 2 < FRem.frem (b - a) T ∧ 0 < FRem.frem (a + (FRem.frem (b - a) T - T) * (1 / 2)) T,  -- 1: wrap (gt, lt, gt)
    FRem.frem (b - a) T < 0 ∧ FRem.frem (b - a) T + T < T / 2 ∧ 0 < FRem.frem (a + (FRem.frem (b - a) T + T) * (1 / 2)) T,  -- 2: neg_near (lt, gt, gt)
    FRem.frem (b - a) T < 0 ∧ T / 2 < FRem.frem (b - a) T + T ∧ 0 < FRem.frem (a + (FRem.frem (b - a) T + T - T) * (1 / 2)) T,  -- 3: neg_wrap (lt, lt, gt)
    FRem.frem (b - a) T < 0 ∧ T / 2 < FRem.frem (b - a) T + T ∧ FRem.frem (a + (FRem.frem (b - a) T + T - T) * (1 / 2)) T < 0,  -- 4: neg_wrap_neg (lt, lt, lt)
    0 < FRem.frem (b - a) T ∧ FRem.frem (b - a) T < T / 2 ∧ FRem.frem (a + FRem.frem (b - a) T * (1 / 2)) T < 0,  -- 5: near_neg (gt, gt, lt)
    FRem.frem (b - a) T = 0 ∧ (0 : K) < T / 2 ∧ 0 < FRem.frem (a + 0 * (1 / 2)) T,  -- 6: same (eq, gt, gt)
    0 < FRem.frem (b - a) T ∧ FRem.frem (b - a) T < T / 2 ∧ FRem.frem (a + FRem.frem (b - a) T * (1 / 2)) T = 0,  -- 7: near_zero (gt, gt, eq)
    0 < FRem.frem (b - a) T ∧ T / 2 < FRem.frem (b - a) T ∧ FRem.frem (a + (FRem.frem (b - a) T - T) * (1 / 2)) T < 0,  -- 8: wrap_neg (gt, lt, lt)
    0 < FRem.frem (b - a) T ∧ T / 2 < FRem.frem (b - a) T ∧ FRem.frem (a + (FRem.frem (b - a) T - T) * (1 / 2)) T = 0,  -- 9: wrap_zero (gt, lt, eq)
    0 < FRem.frem (b - a) T ∧ FRem.frem (b - a) T = T / 2 ∧ 0 < FRem.frem (a + FRem.frem (b - a) T * (1 / 2)) T,  -- 10: half (gt, eq, gt)
    0 < FRem.frem (b - a) T ∧ FRem.frem (b - a) T = T / 2 ∧ FRem.frem (a + FRem.frem (b - a) T * (1 / 2)) T < 0,  -- 11: half_neg (gt, eq, lt)
    0 < FRem.frem (b - a) T ∧ FRem.frem (b - a) T = T / 2 ∧ FRem.frem (a + FRem.frem (b - a) T * (1 / 2)) T = 0,  -- 12: half_zero (gt, eq, eq)
    FRem.frem (b - a) T < 0 ∧ FRem.frem (b - a) T + T < T / 2 ∧ FRem.frem (a + (FRem.frem (b - a) T + T) * (1 / 2)) T < 0,  -- 13: neg_near_neg (lt, gt, lt)
    FRem.frem (b - a) T < 0 ∧ FRem.frem (b - a) T + T < T / 2 ∧ FRem.frem (a + (FRem.frem (b - a) T + T) * (1 / 2)) T = 0,  -- 14: neg_near_zero (lt, gt, eq)
    FRem.frem (b - a) T < 0 ∧ T / 2 < FRem.frem (b - a) T + T ∧ FRem.frem (a + (FRem.frem (b - a) T + T - T) * (1 / 2)) T = 0,  -- 15: neg_wrap_zero (lt, lt, eq)
    FRem.frem (b - a) T < 0 ∧ FRem.frem (b - a) T + T = T / 2 ∧ 0 < FRem.frem (a + (FRem.frem (b - a) T + T) * (1 / 2)) T,  -- 16: neg_half (lt, eq, gt)
    FRem.frem (b - a) T < 0 ∧ FRem.frem (b - a) T + T = T / 2 ∧ FRem.frem (a + (FRem.frem (b - a) T + T) * (1 / 2)) T < 0,  -- 17: neg_half_neg (lt, eq, lt)
    FRem.frem (b - a) T < 0 ∧ FRem.frem (b - a) T + T = T / 2 ∧ FRem.frem (a + (FRem.frem (b - a) T + T) * (1 / 2)) T = 0,  -- 18: neg_half_zero (lt, eq, eq)
    FRem.frem (b - a) T = 0 ∧ (0 : K) < T / 2 ∧ FRem.frem (a + 0 * (1 / 2)) T < 0,  -- 19: same_neg (eq, gt, lt)
    FRem.frem (b - a) T = 0 ∧ (0 : K) < T / 2 ∧ FRem.frem (a + 0 * (1 / 2)) T = 0 ]  -- 20: same_zero (eq, gt, eq)
/-- the one untraced class: equal directions and `T/2 ? 0` not `Greater` (six syntactic paths) -/
def bisectUntraced (T a b : K) : List Prop := [ FRem.frem (b - a) T = 0 ∧ ¬ (0 : K) < T / 2 ]

theorem bisect_partition_excl (T a b : K) : Excl (bisectPaths T a b ++ bisectUntraced T a b) := by
  simp only [bisectPaths, bisectUntraced, List.cons_append, List.nil_append, AnyOf, Excl]
  generalize FRem.frem (a + FRem.frem (b - a) T * (1 / 2)) T = m1
  generalize FRem.frem (a + (FRem.frem (b - a) T - T) * (1 / 2)) T = m2
  generalize FRem.frem (a + (FRem.frem (b - a) T + T) * (1 / 2)) T = m3
  generalize FRem.frem (a + (FRem.frem (b - a) T + T - T) * (1 / 2)) T = m4
  generalize FRem.frem (a + 0 * (1 / 2)) T = m5
  generalize FRem.frem (b - a) T + T = r'
  generalize FRem.frem (b - a) T = r
  generalize T / 2 = H
  excl_tac
theorem bisect_partition_all (T a b : K) : AnyOf (bisectPaths T a b ++ bisectUntraced T a b) := by
  simp only [bisectPaths, bisectUntraced, List.cons_append, List.nil_append, AnyOf, Excl]
  generalize FRem.frem (a + FRem.frem (b - a) T * (1 / 2)) T = m1
  generalize FRem.frem (a + (FRem.frem (b - a) T - T) * (1 / 2)) T = m2
  generalize FRem.frem (a + (FRem.frem (b - a) T + T) * (1 / 2)) T = m3
  generalize FRem.frem (a + (FRem.frem (b - a) T + T - T) * (1 / 2)) T = m4
  generalize FRem.frem (a + 0 * (1 / 2)) T = m5
  generalize FRem.frem (b - a) T + T = r'
  generalize FRem.frem (b - a) T = r
  generalize T / 2 = H
  rcases lt_trichotomy r 0 with h1 | h1 | h1
  · rcases lt_trichotomy r' H with h2 | h2 | h2
    · rcases lt_trichotomy m3 0 with h3 | h3 | h3 <;> grind
    · rcases lt_trichotomy m3 0 with h3 | h3 | h3 <;> grind
    · rcases lt_trichotomy m4 0 with h3 | h3 | h3 <;> grind
  · by_cases h2 : (0 : K) < H
    · rcases lt_trichotomy m5 0 with h3 | h3 | h3 <;> grind
    · grind
  · rcases lt_trichotomy r H with h2 | h2 | h2
    · rcases lt_trichotomy m1 0 with h3 | h3 | h3 <;> grind
    · rcases lt_trichotomy m1 0 with h3 | h3 | h3 <;> grind
    · rcases lt_trichotomy m2 0 with h3 | h3 | h3 <;> grind
theorem bisect_excl (T a b : K) : Excl (bisectPaths T a b) :=
  excl_append_left _ _ (bisect_partition_excl T a b)
/-- the exact remainder, in any linear order -/
theorem bisect_cover (T a b : K) :
    AnyOf (bisectPaths T a b) ↔ ¬ (FRem.frem (b - a) T = 0 ∧ ¬ (0 : K) < T / 2) := by
  rw [cover_of_partition _ _ (bisect_partition_excl T a b) (bisect_partition_all T a b)]
  simp only [bisectUntraced, AnyOf, or_false]
/-- EXHAUSTIVE when the half turn is positive -/
theorem bisect_cover_of_pos (T a b : K) (hT : (0 : K) < T / 2) : AnyOf (bisectPaths T a b) ↔ True := by
  rw [bisect_cover]; simp only [hT, not_true_eq_false, and_false, not_false_eq_true]

/-- `Deg::bisect`: entries 0-6 as in `Cover2.degBisectPaths` (`t_deg_bisect_near`, `…_wrap`, `C13Paths.t_deg_bisect_neg_near`, `…_neg_wrap`,
`…_neg_wrap_neg`, `…_near_neg`, `…_same`), entries 7-20 the kernels of `Trace/C13More.lean`: `t_deg_bisect_near_zero`, `…_wrap_neg`,
`…_wrap_zero`, `…_half`, `…_half_neg`, `…_half_zero`, `…_neg_near_neg`, `…_neg_near_zero`, `…_neg_wrap_zero`, `…_neg_half`, `…_neg_half_neg`,
`…_neg_half_zero`, `…_same_neg`, `…_same_zero` -/
def degBisectPaths (a b : K) : List Prop := bisectPaths (360 : K) a b
/-- `Rad::bisect`: entries 0, 1 as in `Cover2.radBisectPaths` (`C13Paths.t_rad_bisect_near`, `…_wrap`), entries 2-20 the kernels
`t_rad_bisect_<path>` of `Trace/C13More.lean`, paths in the order of `degBisectPaths` -/
def radBisectPaths (a b : K) : List Prop := bisectPaths (Lits.radFull : K) a b
theorem deg_bisect_extends (a b : K) :
    ∃ l, degBisectPaths a b = Cover2.degBisectPaths a b ++ l ∧ l.length = 14 := ⟨_, rfl, rfl⟩
theorem rad_bisect_extends (a b : K) :
    ∃ l, radBisectPaths a b = Cover2.radBisectPaths a b ++ l ∧ l.length = 19 := ⟨_, rfl, rfl⟩
theorem deg_bisect_excl (a b : K) : Excl (degBisectPaths a b) := bisect_excl _ a b
theorem rad_bisect_excl (a b : K) : Excl (radBisectPaths a b) := bisect_excl _ a b
theorem deg_bisect_cover (a b : K) :
    AnyOf (degBisectPaths a b) ↔ ¬ (FRem.frem (b - a) (360 : K) = 0 ∧ ¬ (0 : K) < 360 / 2) := bisect_cover _ a b
theorem rad_bisect_cover (a b : K) :
    AnyOf (radBisectPaths a b) ↔ ¬ (FRem.frem (b - a) (Lits.radFull : K) = 0 ∧ ¬ (0 : K) < Lits.radFull / 2) := bisect_cover _ a b
/-- EXHAUSTIVE over an ordered field (was: the complement of eight untraced classes) -/
theorem deg_bisect_cover_ordered [IsStrictOrderedRing K] (a b : K) : AnyOf (degBisectPaths a b) ↔ True :=
  bisect_cover_of_pos _ a b (by norm_num)
/-- EXHAUSTIVE over an ordered field in which the literal full turn is positive (was: two paths) -/
theorem rad_bisect_cover_ordered [IsStrictOrderedRing K] (hT : (0 : K) < Lits.radFull) (a b : K) :
    AnyOf (radBisectPaths a b) ↔ True :=
  bisect_cover_of_pos _ a b (half_pos hT)
/-- the eight untraced classes of `Cover2.degBisectUntraced` are now traced, except the infeasible one (entry 5 there):
whenever one of them holds and `0 < 360 / 2`, so does one of the new entries 7-20 -/
theorem deg_bisect_untraced_now_traced (a b : K) (hT : (0 : K) < 360 / 2) (h : AnyOf (Cover2.degBisectUntraced a b)) :
    ∃ i, 7 ≤ i ∧ i < 21 ∧ nth (degBisectPaths a b) i := by
  have hc := (bisect_cover_of_pos (360 : K) a b hT).mpr trivial
  have hx := excl_append_disjoint _ _ (Cover2.deg_bisect_partition_excl a b)
  obtain ⟨l, hl, -⟩ := deg_bisect_extends a b
  have hnot : ¬ AnyOf (Cover2.degBisectPaths a b) := fun h' => hx h' h
  change AnyOf (degBisectPaths a b) at hc
  simp only [degBisectPaths, bisectPaths, AnyOf, or_false] at hc
  simp only [Cover2.degBisectPaths, AnyOf, or_false] at hnot
  simp only [degBisectPaths, bisectPaths]
  rcases hc with h0 | h1 | h2 | h3 | h4 | h5 | h6 | h7 | h8 | h9 | h10 | h11 | h12 | h13 | h14 | h15 | h16 | h17 | h18 | h19 | h20
  · exact absurd (Or.inl h0) hnot
  · exact absurd (Or.inr (Or.inl h1)) hnot
  · exact absurd (Or.inr (Or.inr (Or.inl h2))) hnot
  · exact absurd (Or.inr (Or.inr (Or.inr (Or.inl h3)))) hnot
  · exact absurd (Or.inr (Or.inr (Or.inr (Or.inr (Or.inl h4))))) hnot
  · exact absurd (Or.inr (Or.inr (Or.inr (Or.inr (Or.inr (Or.inl h5)))))) hnot
  · exact absurd (Or.inr (Or.inr (Or.inr (Or.inr (Or.inr (Or.inr h6)))))) hnot
  · exact ⟨7, by decide, by decide, h7⟩
  · exact ⟨8, by decide, by decide, h8⟩
  · exact ⟨9, by decide, by decide, h9⟩
  · exact ⟨10, by decide, by decide, h10⟩
  · exact ⟨11, by decide, by decide, h11⟩
  · exact ⟨12, by decide, by decide, h12⟩
  · exact ⟨13, by decide, by decide, h13⟩
  · exact ⟨14, by decide, by decide, h14⟩
  · exact ⟨15, by decide, by decide, h15⟩
  · exact ⟨16, by decide, by decide, h16⟩
  · exact ⟨17, by decide, by decide, h17⟩
  · exact ⟨18, by decide, by decide, h18⟩
  · exact ⟨19, by decide, by decide, h19⟩
  · exact ⟨20, by decide, by decide, h20⟩
end C13
end Cg.Trace.Cover3
