import Cgm.Trace.C08Paths
/-! # T obligations for C08, the remaining paths: `Decomposed<_, Basis2>::look_at_lh` on the flip side of
`Matrix2::look_at`; `Decomposed<_, Quaternion>::look_at` on the four negative-trace paths of
`From<Matrix3> for Quaternion`; `inverse_transform_vector` with `scale ≈ 0` (`None`) and with a singular
`Basis3` (the `unwrap` panic of `Basis3::invert`).

NOT traceable: the `unwrap` panic of `Basis2::invert` under `Decomposed<_, Basis2>::inverse_transform{,_vector}`:
the harness builds the `Basis2` with `from_angle`, whose determinant is `cos² + sin²`; the shadow `sin`/`cos`
are the rational parametrisation `2t/(1+t²)`, `(1-t²)/(1+t²)`, so the determinant is `1` on every shadow input
(`Cover2.db2_inverse_transform_cover_pythagoras` is the corresponding statement about the model). -/
set_option linter.unusedSectionVars false
namespace Cg.Trace.C08More
open Cg Cg.Gen.C08 Cg.Trace.C08 Cg.Trace.C08Paths
variable {K : Type} [Field K] [LinearOrder K] [Approx K] [Transc K] [FRem K] [Lits K]
attribute [local simp] Decomposed.concat Decomposed.transformVector Decomposed.transformPointV quatOps basis2Ops basis3Ops
  Decomposed.toM4 Decomposed.toM3 flq flb3 flb2 mk3 mk2 in3 in2 Basis2.rotateVector Basis2.mul M2.fromAngle
  Basis3.rotateVector Basis3.mul Basis3.fromQuaternion eps52

/-! `inverse_transform_vector`: the `None` and panic outcomes -/
theorem t_db3_inverse_transform_vector_none (s : K) (q : Quat K) (u w : V3 K) (h : ulpsEqD s 0 = true) :
    t_db3_inverse_transform_vector_none (envL (in3 s q u ++ w.toList)) = .noneG [.ulps s 0 eps52 4 true] ∧
      Decomposed.inverseTransformVector basis3Ops (mk3 s q u) w = .none := by
  refine ⟨by tr_auto, by simp [Decomposed.inverseTransformVector, h]⟩
theorem t_db3_inverse_transform_vector_panic (s : K) (q : Quat K) (u w : V3 K) (h : ulpsEqD s 0 = false)
    (hd : q.toM3.det = 0) :
    t_db3_inverse_transform_vector_panic (envL (in3 s q u ++ w.toList)) =
      .panicG [.ulps s 0 eps52 4 false, .eq q.toM3.det 0 true] ∧
      Decomposed.inverseTransformVector basis3Ops (mk3 s q u) w = .panic := by
  refine ⟨by simp [M3.det, Quat.toM3]; tr_auto, by
    simp only [Decomposed.inverseTransformVector, mk3, h, basis3Ops, Basis3.invert?, Basis3.fromQuaternion, M3.invert, if_pos hd,
      Option.map]; simp⟩
theorem t_db2_inverse_transform_vector_none (s a : K) (u w : V2 K) (h : ulpsEqD s 0 = true) :
    t_db2_inverse_transform_vector_none (envL (in2 s a u ++ w.toList)) = .noneG [.ulps s 0 eps52 4 true] ∧
      Decomposed.inverseTransformVector basis2Ops (mk2 s a u) w = .none := by
  refine ⟨by tr_auto, by simp [Decomposed.inverseTransformVector, h]⟩

/-! `Decomposed::look_at*` -/
attribute [local simp] Decomposed.lookAtDir Quat.lookAt Basis3.lookAt M3.lookToLh V3.normalize V3.normalizeTo V3.magnitude
  Basis2.lookAt M2.lookAt M2.lookAtStable V2.normalize V2.normalizeTo V2.magnitude

/-- 2-D `look_at_lh`: `Matrix2::look_at(center - eye, up)`, on the flip side of its comparison -/
theorem t_db2_look_at_lh_flip (e c : P2 K) (u : V2 K) (h : u.y * (c - e).x ≤ u.x * (c - e).y) :
    t_db2_look_at_lh_flip (envL (e.toList ++ c.toList ++ u.toList)) =
      .okG (flb2 (Decomposed.lookAtDir basis2Ops (c - e) u V2.zero e.toVec))
        [.le (u.y * (c - e).x) (u.x * (c - e).y) true] := by
  simp only [Decomposed.lookAtDir, basis2Ops, Basis2.lookAt, M2.lookAt, h, decide_true]
  tr_auto_nf

/-- the matrix that `Decomposed<_, Quaternion>::look_at(eye, center, up)` converts -/
abbrev lm (e c : P3 K) (u : V3 K) : M3 K := M3.lookToLh (c - e) u

/-- `Decomposed<_, Quaternion>::look_at` (deprecated alias of `look_at_lh`), negative trace, `m.x.x` largest -/
theorem t_dq_look_at_xx (e c : P3 K) (u : V3 K) (h : ¬ 0 ≤ (lm e c u).trace) (h1 : (lm e c u).y.y < (lm e c u).x.x)
    (h2 : (lm e c u).z.z < (lm e c u).x.x) :
    t_dq_look_at_xx (envL (e.toList ++ c.toList ++ u.toList)) =
      .okG (flq (Decomposed.lookAtDir quatOps (c - e) u V3.zero e.toVec))
        [.le 0 (lm e c u).trace false, .lt (lm e c u).y.y (lm e c u).x.x true, .lt (lm e c u).z.z (lm e c u).x.x true] := by
  simp only [Decomposed.lookAtDir, quatOps, Quat.lookAt, lm] at *
  unfold M3.toQuat; simp only [if_neg h, h1, h2, and_self, if_true]; tr_auto_nf
theorem t_dq_look_at_yy (e c : P3 K) (u : V3 K) (h : ¬ 0 ≤ (lm e c u).trace) (h1 : ¬ (lm e c u).y.y < (lm e c u).x.x)
    (h2 : (lm e c u).z.z < (lm e c u).y.y) :
    t_dq_look_at_yy (envL (e.toList ++ c.toList ++ u.toList)) =
      .okG (flq (Decomposed.lookAtDir quatOps (c - e) u V3.zero e.toVec))
        [.le 0 (lm e c u).trace false, .lt (lm e c u).y.y (lm e c u).x.x false, .lt (lm e c u).z.z (lm e c u).y.y true] := by
  simp only [Decomposed.lookAtDir, quatOps, Quat.lookAt, lm] at *
  unfold M3.toQuat; simp only [if_neg h, h1, h2, false_and, if_false, if_true]; tr_auto_nf
theorem t_dq_look_at_zz (e c : P3 K) (u : V3 K) (h : ¬ 0 ≤ (lm e c u).trace) (h1 : ¬ (lm e c u).y.y < (lm e c u).x.x)
    (h2 : ¬ (lm e c u).z.z < (lm e c u).y.y) :
    t_dq_look_at_zz (envL (e.toList ++ c.toList ++ u.toList)) =
      .okG (flq (Decomposed.lookAtDir quatOps (c - e) u V3.zero e.toVec))
        [.le 0 (lm e c u).trace false, .lt (lm e c u).y.y (lm e c u).x.x false, .lt (lm e c u).z.z (lm e c u).y.y false] := by
  simp only [Decomposed.lookAtDir, quatOps, Quat.lookAt, lm] at *
  unfold M3.toQuat; simp only [if_neg h, h1, h2, false_and, if_false]; tr_auto_nf
theorem t_dq_look_at_zz2 (e c : P3 K) (u : V3 K) (h : ¬ 0 ≤ (lm e c u).trace) (h1 : (lm e c u).y.y < (lm e c u).x.x)
    (h2 : ¬ (lm e c u).z.z < (lm e c u).x.x) (h3 : ¬ (lm e c u).z.z < (lm e c u).y.y) :
    t_dq_look_at_zz2 (envL (e.toList ++ c.toList ++ u.toList)) =
      .okG (flq (Decomposed.lookAtDir quatOps (c - e) u V3.zero e.toVec))
        [.le 0 (lm e c u).trace false, .lt (lm e c u).y.y (lm e c u).x.x true, .lt (lm e c u).z.z (lm e c u).x.x false,
         .lt (lm e c u).z.z (lm e c u).y.y false] := by
  simp only [Decomposed.lookAtDir, quatOps, Quat.lookAt, lm] at *
  unfold M3.toQuat; simp only [if_neg h, h1, h2, h3, and_false, true_and, if_false]; tr_auto_nf
end Cg.Trace.C08More
