import Cgm.Trace.C08Paths
/-!
# T obligations for C08: `Transform::one()` of the five transform types

`Decomposed<Vector3, Quaternion>`, `Decomposed<Vector3, Basis3>`, `Decomposed<Vector2, Basis2>` (scale 1, the rotation's
`one()`, zero displacement, printed in the harness's flat form scale :: rotation ++ displacement), and `Matrix3` /
`Matrix4`, whose `Transform::one` is `One::one()` (the op the harness traces).  The kernels take no argument.
-/
set_option linter.unusedSectionVars false
namespace Cg.Trace.C08Idx
open Cg Cg.Gen.C08 Cg.Trace.C08 Cg.Trace.C08Paths
variable {K : Type} [Field K] [LinearOrder K] [Approx K] [Transc K] [FRem K] [Lits K]

/-- `Decomposed::<Vector3, Quaternion>::one()` -/
theorem t_dq_one :
    t_dq_one (envL ([] : List K)) = .okS (flq (Decomposed.one quatOps (V3.zero : V3 K))) := by
  simp [Tr.okS, flq, Decomposed.one, quatOps, Quat.one, Quat.fromSv, Quat.toList, V3.zero, V3.fromValue, V3.toList]
/-- `Decomposed::<Vector3, Basis3>::one()` -/
theorem t_db3_one :
    t_db3_one (envL ([] : List K)) = .okS (flb3 (Decomposed.one basis3Ops (V3.zero : V3 K))) := by
  simp [Tr.okS, flb3, Decomposed.one, basis3Ops, Basis3.one, M3.one, M3.fromValue, M3.new, M3.toList, V3.zero,
    V3.fromValue, V3.toList]
/-- `Decomposed::<Vector2, Basis2>::one()` -/
theorem t_db2_one :
    t_db2_one (envL ([] : List K)) = .okS (flb2 (Decomposed.one basis2Ops (V2.zero : V2 K))) := by
  simp [Tr.okS, flb2, Decomposed.one, basis2Ops, Basis2.one, M2.one, M2.fromValue, M2.new, M2.toList, V2.zero,
    V2.fromValue, V2.toList]
/-- `Matrix3::one()` (`Transform<Point2>::one` and `Transform<Point3>::one` of `Matrix3` return it) -/
theorem t_m3_one : t_m3_one (envL ([] : List K)) = .okS (M3.one : M3 K).toList := by
  simp [Tr.okS, M3.one, M3.fromValue, M3.new, M3.toList, V3.toList]
/-- `Matrix4::one()` (`Transform<Point3>::one` of `Matrix4` returns it) -/
theorem t_m4_one : t_m4_one (envL ([] : List K)) = .okS (M4.one : M4 K).toList := by
  simp [Tr.okS, M4.one, M4.fromValue, M4.new, M4.toList, V4.toList]

/-- the flat form of the identity `Decomposed` written out: scale 1, rotation one, displacement 0 -/
theorem one_written_out :
    flq (Decomposed.one quatOps (V3.zero : V3 K)) = [1, 1, 0, 0, 0, 0, 0, 0] ∧
    flb3 (Decomposed.one basis3Ops (V3.zero : V3 K)) = [1, 1, 0, 0, 0, 1, 0, 0, 0, 1, 0, 0, 0] ∧
    flb2 (Decomposed.one basis2Ops (V2.zero : V2 K)) = [1, 1, 0, 0, 1, 0, 0] := by
  refine ⟨?_, ?_, ?_⟩
  · simp [flq, Decomposed.one, quatOps, Quat.one, Quat.fromSv, Quat.toList, V3.zero, V3.fromValue, V3.toList]
  · simp [flb3, Decomposed.one, basis3Ops, Basis3.one, M3.one, M3.fromValue, M3.new, M3.toList, V3.zero,
      V3.fromValue, V3.toList]
  · simp [flb2, Decomposed.one, basis2Ops, Basis2.one, M2.one, M2.fromValue, M2.new, M2.toList, V2.zero,
      V2.fromValue, V2.toList]
end Cg.Trace.C08Idx
