import Cgm.Gen.C05
import Cgm.Model.Rot
/-! # T obligations for C05: conversions between the rotation representations, path by path -/
set_option linter.unusedSectionVars false
namespace Cg.Trace.C05
open Cg Cg.Gen.C05
variable {K : Type} [Field K] [LinearOrder K] [Transc K] [FRem K] [Lits K]

theorem t_q_to_m3 (q : Quat K) : t_q_to_m3 (envL q.toList) = .okS q.toM3.toList := by tr_auto
theorem t_q_to_m4 (q : Quat K) : t_q_to_m4 (envL q.toList) = .okS q.toM4.toList := by tr_auto

/-! `From<Matrix3> for Quaternion`: the comparisons made are exactly the model's branch
conditions (with `&&` short-circuiting), and on each path the result is the model's. -/
theorem t_m3_to_quat_trace (m : M3 K) (h : 0 ≤ m.trace) :
    t_m3_to_quat_trace (envL m.toList) = .okG m.toQuat.toList [.le 0 m.trace true] := by
  unfold M3.toQuat; simp only [if_pos h]; tr_auto
theorem t_m3_to_quat_xx (m : M3 K) (h : ¬ 0 ≤ m.trace) (h1 : m.y.y < m.x.x) (h2 : m.z.z < m.x.x) :
    t_m3_to_quat_xx (envL m.toList) =
      .okG m.toQuat.toList [.le 0 m.trace false, .lt m.y.y m.x.x true, .lt m.z.z m.x.x true] := by
  unfold M3.toQuat; simp only [if_neg h, h1, h2, and_self, if_true]; tr_auto
theorem t_m3_to_quat_yy (m : M3 K) (h : ¬ 0 ≤ m.trace) (h1 : ¬ m.y.y < m.x.x) (h2 : m.z.z < m.y.y) :
    t_m3_to_quat_yy (envL m.toList) =
      .okG m.toQuat.toList [.le 0 m.trace false, .lt m.y.y m.x.x false, .lt m.z.z m.y.y true] := by
  unfold M3.toQuat; simp only [if_neg h, h1, h2, false_and, if_false, if_true]; tr_auto
theorem t_m3_to_quat_zz (m : M3 K) (h : ¬ 0 ≤ m.trace) (h1 : ¬ m.y.y < m.x.x) (h2 : ¬ m.z.z < m.y.y) :
    t_m3_to_quat_zz (envL m.toList) =
      .okG m.toQuat.toList [.le 0 m.trace false, .lt m.y.y m.x.x false, .lt m.z.z m.y.y false] := by
  unfold M3.toQuat; simp only [if_neg h, h1, h2, false_and, if_false]; tr_auto
theorem t_m3_to_quat_zz2 (m : M3 K) (h : ¬ 0 ≤ m.trace) (h1 : m.y.y < m.x.x) (h2 : ¬ m.z.z < m.x.x)
    (h3 : ¬ m.z.z < m.y.y) :
    t_m3_to_quat_zz2 (envL m.toList) =
      .okG m.toQuat.toList [.le 0 m.trace false, .lt m.y.y m.x.x true, .lt m.z.z m.x.x false, .lt m.z.z m.y.y false] := by
  unfold M3.toQuat; simp only [if_neg h, h1, h2, h3, and_false, true_and, if_false]; tr_auto
/-- `Basis3 * Basis3` (values travel as quaternions): the matrix product of the two matrices, in this order -/
theorem t_b3_mul (p q : Quat K) :
    t_b3_mul (envL (p.toList ++ q.toList)) = .okS ((Basis3.fromQuaternion p).mul (Basis3.fromQuaternion q)).mat.toList := by
  simp [Basis3.fromQuaternion, Basis3.mul]; tr_auto
end Cg.Trace.C05
