import Cgm.Lemmas.AuditCmd
import Cgm.E2E.C15
import Cgm.E2E.C15b
import Cgm.E2E.C15c
import Cgm.E2E.C15g
#audit_namespace Cg.E2E.C15
