import Cgm.Lemmas.AuditCmd
import Cgm.E2E.C15
import Cgm.E2E.C15b
#audit_namespace Cg.E2E.C15
