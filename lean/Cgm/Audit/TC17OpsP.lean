import Cgm.Lemmas.AuditCmd
import Cgm.Trace.C17OpsP
#audit_namespace Cg.Trace.C17OpsP
