import Cgm.Lemmas.AuditCmd
import Cgm.Props.C07
#audit_namespace Cg.C07
