import Cgm.Lemmas.AuditCmd
import Cgm.Props.C07
import Cgm.Props.C07b
import Cgm.Props.C07c
import Cgm.Props.C07d
#audit_namespace Cg.C07
