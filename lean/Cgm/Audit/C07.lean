import Cgm.Lemmas.AuditCmd
import Cgm.Props.C07
import Cgm.Props.C07b
import Cgm.Props.C07c
#audit_namespace Cg.C07
