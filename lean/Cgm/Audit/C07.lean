import Cgm.Lemmas.AuditCmd
import Cgm.Props.C07
import Cgm.Props.C07b
#audit_namespace Cg.C07
