import Cgm.Lemmas.AuditCmd
import Cgm.Trace.C09Rest
#audit_namespace Cg.Trace.C09Rest
