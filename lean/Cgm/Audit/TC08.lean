import Cgm.Lemmas.AuditCmd
import Cgm.Trace.C08
#audit_namespace Cg.Trace.C08
