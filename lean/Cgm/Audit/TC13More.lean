import Cgm.Lemmas.AuditCmd
import Cgm.Trace.C13More
#audit_namespace Cg.Trace.C13More
