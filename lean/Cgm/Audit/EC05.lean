import Cgm.Lemmas.AuditCmd
import Cgm.E2E.C05
#audit_namespace Cg.E2E.C05
