import Cgm.Lemmas.AuditCmd
import Cgm.E2E.C05
import Cgm.E2E.C05b
#audit_namespace Cg.E2E.C05
