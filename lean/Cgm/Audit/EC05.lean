import Cgm.Lemmas.AuditCmd
import Cgm.E2E.C05
import Cgm.E2E.C05b
import Cgm.E2E.C05c
import Cgm.E2E.C05g
#audit_namespace Cg.E2E.C05
