import Cgm.Lemmas.AuditCmd
import Cgm.Props.C13
import Cgm.Props.C13b
import Cgm.Props.C13c
import Cgm.Props.C13d
#audit_namespace Cg.C13
