import Cgm.Lemmas.AuditCmd
import Cgm.Props.C13
import Cgm.Props.C13b
#audit_namespace Cg.C13
