import Cgm.Lemmas.AuditCmd
import Cgm.Props.C13
#audit_namespace Cg.C13
