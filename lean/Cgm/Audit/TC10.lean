import Cgm.Lemmas.AuditCmd
import Cgm.Trace.C10
#audit_namespace Cg.Trace.C10
