import Cgm.Lemmas.AuditCmd
import Cgm.Trace.C17OpsM
#audit_namespace Cg.Trace.C17OpsM
