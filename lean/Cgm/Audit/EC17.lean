import Cgm.Lemmas.AuditCmd
import Cgm.E2E.C17
import Cgm.E2E.C17b
#audit_namespace Cg.E2E.C17
