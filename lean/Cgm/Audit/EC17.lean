import Cgm.Lemmas.AuditCmd
import Cgm.E2E.C17
#audit_namespace Cg.E2E.C17
