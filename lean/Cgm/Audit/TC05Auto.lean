import Cgm.Lemmas.AuditCmd
import Cgm.Trace.C05Auto
#audit_namespace Cg.Trace.C05Auto
