import Cgm.Lemmas.AuditCmd
import Cgm.Trace.C13Auto
#audit_namespace Cg.Trace.C13Auto
