import Cgm.Lemmas.AuditCmd
import Cgm.Trace.C04
#audit_namespace Cg.Trace.C04
