import Cgm.Lemmas.AuditCmd
import Cgm.Trace.C07Rest
#audit_namespace Cg.Trace.C07Rest
