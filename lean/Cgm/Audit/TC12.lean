import Cgm.Lemmas.AuditCmd
import Cgm.Trace.C12
#audit_namespace Cg.Trace.C12
