import Cgm.Lemmas.AuditCmd
import Cgm.Trace.C14
#audit_namespace Cg.Trace.C14
