import Cgm.Lemmas.AuditCmd
import Cgm.E2E.C03
import Cgm.E2E.C03h
#audit_namespace Cg.E2E.C03
