import Cgm.Lemmas.AuditCmd
import Cgm.Trace.C10Paths
#audit_namespace Cg.Trace.C10Paths
