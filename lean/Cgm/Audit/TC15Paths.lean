import Cgm.Lemmas.AuditCmd
import Cgm.Trace.C15Paths
#audit_namespace Cg.Trace.C15Paths
