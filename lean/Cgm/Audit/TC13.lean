import Cgm.Lemmas.AuditCmd
import Cgm.Trace.C13
#audit_namespace Cg.Trace.C13
