import Cgm.Lemmas.AuditCmd
import Cgm.E2E.C13
import Cgm.E2E.C13b
import Cgm.E2E.C13c
import Cgm.E2E.C13d
import Cgm.E2E.C13g
#audit_namespace Cg.E2E.C13
