import Cgm.Lemmas.AuditCmd
import Cgm.E2E.C04
import Cgm.E2E.C04h
#audit_namespace Cg.E2E.C04
