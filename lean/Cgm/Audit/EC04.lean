import Cgm.Lemmas.AuditCmd
import Cgm.E2E.C04
import Cgm.E2E.C04h
import Cgm.E2E.C04i
#audit_namespace Cg.E2E.C04
