import Cgm.Lemmas.AuditCmd
import Cgm.Trace.C04Auto
#audit_namespace Cg.Trace.C04Auto
