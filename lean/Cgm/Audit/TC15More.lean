import Cgm.Lemmas.AuditCmd
import Cgm.Trace.C15More
#audit_namespace Cg.Trace.C15More
