import Cgm.Lemmas.AuditCmd
import Cgm.E2E.C10
import Cgm.E2E.C10b
import Cgm.E2E.C10g
import Cgm.E2E.C10h
import Cgm.E2E.C10i
#audit_namespace Cg.E2E.C10
