import Cgm.Lemmas.AuditCmd
import Cgm.E2E.C10
import Cgm.E2E.C10b
#audit_namespace Cg.E2E.C10
