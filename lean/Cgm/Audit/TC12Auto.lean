import Cgm.Lemmas.AuditCmd
import Cgm.Trace.C12Auto
#audit_namespace Cg.Trace.C12Auto
