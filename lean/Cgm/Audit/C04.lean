import Cgm.Lemmas.AuditCmd
import Cgm.Props.C04
#audit_namespace Cg.C04
