import Cgm.Lemmas.AuditCmd
import Cgm.Props.C04
import Cgm.Props.C04b
#audit_namespace Cg.C04
