import Cgm.Lemmas.AuditCmd
import Cgm.Trace.C01IdxAll
#audit_namespace Cg.Trace.C01IdxAll
