import Cgm.Lemmas.AuditCmd
import Cgm.E2E.C02
import Cgm.E2E.C02g
import Cgm.E2E.C02i
#audit_namespace Cg.E2E.C02
