import Cgm.Lemmas.AuditCmd
import Cgm.E2E.C02
import Cgm.E2E.C02g
#audit_namespace Cg.E2E.C02
