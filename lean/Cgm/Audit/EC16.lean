import Cgm.Lemmas.AuditCmd
import Cgm.E2E.C16
import Cgm.E2E.C16b
#audit_namespace Cg.E2E.C16
