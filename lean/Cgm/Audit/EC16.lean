import Cgm.Lemmas.AuditCmd
import Cgm.E2E.C16
#audit_namespace Cg.E2E.C16
