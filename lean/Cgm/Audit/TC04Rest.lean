import Cgm.Lemmas.AuditCmd
import Cgm.Trace.C04Rest
#audit_namespace Cg.Trace.C04Rest
