import Cgm.Lemmas.AuditCmd
import Cgm.Trace.C01Idx
#audit_namespace Cg.Trace.C01Idx
