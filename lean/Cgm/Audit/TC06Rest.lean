import Cgm.Lemmas.AuditCmd
import Cgm.Trace.C06Rest
#audit_namespace Cg.Trace.C06Rest
