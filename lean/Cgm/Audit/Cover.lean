import Cgm.Lemmas.AuditCmd
import Cgm.Trace.Cover
import Cgm.Trace.Cover2
#audit_namespace Cg.Trace.Cover
#audit_namespace Cg.Trace.Cover2
