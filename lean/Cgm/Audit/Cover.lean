import Cgm.Lemmas.AuditCmd
import Cgm.Trace.Cover
#audit_namespace Cg.Trace.Cover
