import Cgm.Lemmas.AuditCmd
import Cgm.Trace.C18Ops
#audit_namespace Cg.Trace.C18Ops
