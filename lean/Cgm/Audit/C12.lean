import Cgm.Lemmas.AuditCmd
import Cgm.Props.C12
#audit_namespace Cg.C12
