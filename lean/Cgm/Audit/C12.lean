import Cgm.Lemmas.AuditCmd
import Cgm.Props.C12
import Cgm.Props.C12b
#audit_namespace Cg.C12
