import Cgm.Lemmas.AuditCmd
import Cgm.Props.C16
import Cgm.Props.C16b
#audit_namespace Cg.C16
