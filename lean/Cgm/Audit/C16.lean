import Cgm.Lemmas.AuditCmd
import Cgm.Props.C16
#audit_namespace Cg.C16
