import Cgm.Lemmas.AuditCmd
import Cgm.Props.C16
import Cgm.Props.C16b
import Cgm.Props.C16c
#audit_namespace Cg.C16
