import Cgm.Lemmas.AuditCmd
import Cgm.E2E.C12
#audit_namespace Cg.E2E.C12
