import Cgm.Lemmas.AuditCmd
import Cgm.E2E.C12
import Cgm.E2E.C12h
#audit_namespace Cg.E2E.C12
