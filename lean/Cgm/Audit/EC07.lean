import Cgm.Lemmas.AuditCmd
import Cgm.E2E.C07
import Cgm.E2E.C07b
import Cgm.E2E.C07g
import Cgm.E2E.C07i
import Cgm.E2E.C07j
#audit_namespace Cg.E2E.C07
