import Cgm.Lemmas.AuditCmd
import Cgm.E2E.C01
import Cgm.E2E.C01h
#audit_namespace Cg.E2E.C01
