import Cgm.Lemmas.AuditCmd
import Cgm.E2E.C01
import Cgm.E2E.C01h
import Cgm.E2E.C01i
import Cgm.E2E.C01j
#audit_namespace Cg.E2E.C01
