import Cgm.Lemmas.AuditCmd
import Cgm.Trace.C17Ops
#audit_namespace Cg.Trace.C17Ops
