import Cgm.Lemmas.AuditCmd
import Cgm.E2E.C18
#audit_namespace Cg.E2E.C18
