import Cgm.Lemmas.AuditCmd
import Cgm.E2E.C18
import Cgm.E2E.C18b
#audit_namespace Cg.E2E.C18
