import Cgm.Lemmas.AuditCmd
import Cgm.E2E.C18
import Cgm.E2E.C18b
import Cgm.E2E.C18c
#audit_namespace Cg.E2E.C18
