import Cgm.Lemmas.AuditCmd
import Cgm.Trace.C06
#audit_namespace Cg.Trace.C06
