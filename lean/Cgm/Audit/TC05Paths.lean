import Cgm.Lemmas.AuditCmd
import Cgm.Trace.C05Paths
#audit_namespace Cg.Trace.C05Paths
