import Cgm.Lemmas.AuditCmd
import Cgm.Trace.C18Rest
#audit_namespace Cg.Trace.C18Rest
