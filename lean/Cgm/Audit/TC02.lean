import Cgm.Lemmas.AuditCmd
import Cgm.Trace.C02
#audit_namespace Cg.Trace.C02
