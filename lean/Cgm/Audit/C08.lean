import Cgm.Lemmas.AuditCmd
import Cgm.Props.C08
#audit_namespace Cg.C08
