import Cgm.Lemmas.AuditCmd
import Cgm.Props.C08
import Cgm.Props.C08c
import Cgm.Props.C08b
import Cgm.Props.C08d
#audit_namespace Cg.C08
