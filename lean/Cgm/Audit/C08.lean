import Cgm.Lemmas.AuditCmd
import Cgm.Props.C08
import Cgm.Props.C08c
#audit_namespace Cg.C08
