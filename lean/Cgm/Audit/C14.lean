import Cgm.Lemmas.AuditCmd
import Cgm.Props.C14
import Cgm.Props.C14b
#audit_namespace Cg.C14
