import Cgm.Lemmas.AuditCmd
import Cgm.Props.C14
#audit_namespace Cg.C14
