import Cgm.Lemmas.AuditCmd
import Cgm.Trace.C16Ops
#audit_namespace Cg.Trace.C16Ops
