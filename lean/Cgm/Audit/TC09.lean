import Cgm.Lemmas.AuditCmd
import Cgm.Trace.C09
#audit_namespace Cg.Trace.C09
