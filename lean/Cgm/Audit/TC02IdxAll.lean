import Cgm.Lemmas.AuditCmd
import Cgm.Trace.C02IdxAll
#audit_namespace Cg.Trace.C02IdxAll
