import Cgm.Lemmas.AuditCmd
import Cgm.Props.C01
import Cgm.Props.C01b
import Cgm.Props.C01c
#audit_namespace Cg.C01
