import Cgm.Lemmas.AuditCmd
import Cgm.Props.C01
#audit_namespace Cg.C01
