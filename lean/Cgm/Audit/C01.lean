import Cgm.Lemmas.AuditCmd
import Cgm.Props.C01
import Cgm.Props.C01b
#audit_namespace Cg.C01
