import Cgm.Lemmas.AuditCmd
import Cgm.Trace.C08More
#audit_namespace Cg.Trace.C08More
