import Cgm.Lemmas.AuditCmd
import Cgm.Props.C09
import Cgm.Props.C09b
import Cgm.Props.C09c
import Cgm.Props.C09d
#audit_namespace Cg.C09
