import Cgm.Lemmas.AuditCmd
import Cgm.Props.C09
#audit_namespace Cg.C09
