import Cgm.Lemmas.AuditCmd
import Cgm.Trace.C18OpsD
#audit_namespace Cg.Trace.C18OpsD
