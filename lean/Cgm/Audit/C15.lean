import Cgm.Lemmas.AuditCmd
import Cgm.Props.C15
import Cgm.Props.C15b
#audit_namespace Cg.C15
