import Cgm.Lemmas.AuditCmd
import Cgm.Props.C15
#audit_namespace Cg.C15
