import Cgm.Lemmas.AuditCmd
import Cgm.Props.C15
import Cgm.Props.C15b
import Cgm.Props.C15c
import Cgm.Props.C15d
#audit_namespace Cg.C15
