import Cgm.Lemmas.AuditCmd
import Cgm.Trace.C02Idx
#audit_namespace Cg.Trace.C02Idx
