import Cgm.Lemmas.AuditCmd
import Cgm.Trace.C16Rest
#audit_namespace Cg.Trace.C16Rest
