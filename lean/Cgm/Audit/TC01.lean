import Cgm.Lemmas.AuditCmd
import Cgm.Trace.C01
#audit_namespace Cg.Trace.C01
