import Cgm.Lemmas.AuditCmd
import Cgm.Trace.C06Auto
#audit_namespace Cg.Trace.C06Auto
