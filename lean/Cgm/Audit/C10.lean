import Cgm.Lemmas.AuditCmd
import Cgm.Props.C10
import Cgm.Props.C10b
import Cgm.Props.C10c
#audit_namespace Cg.C10
