import Cgm.Lemmas.AuditCmd
import Cgm.Props.C10
import Cgm.Props.C10b
#audit_namespace Cg.C10
