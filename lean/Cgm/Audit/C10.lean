import Cgm.Lemmas.AuditCmd
import Cgm.Props.C10
#audit_namespace Cg.C10
