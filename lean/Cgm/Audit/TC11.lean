import Cgm.Lemmas.AuditCmd
import Cgm.Trace.C11
#audit_namespace Cg.Trace.C11
