import Cgm.Lemmas.AuditCmd
import Cgm.E2E.C14
import Cgm.E2E.C14b
#audit_namespace Cg.E2E.C14
