import Cgm.Lemmas.AuditCmd
import Cgm.E2E.C14
import Cgm.E2E.C14b
import Cgm.E2E.C14g
import Cgm.E2E.C14h
#audit_namespace Cg.E2E.C14
