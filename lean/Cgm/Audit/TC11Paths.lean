import Cgm.Lemmas.AuditCmd
import Cgm.Trace.C11Paths
#audit_namespace Cg.Trace.C11Paths
