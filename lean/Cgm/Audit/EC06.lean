import Cgm.Lemmas.AuditCmd
import Cgm.E2E.C06
import Cgm.E2E.C06i
import Cgm.E2E.C06j
#audit_namespace Cg.E2E.C06
