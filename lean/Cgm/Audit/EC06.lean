import Cgm.Lemmas.AuditCmd
import Cgm.E2E.C06
import Cgm.E2E.C06i
#audit_namespace Cg.E2E.C06
