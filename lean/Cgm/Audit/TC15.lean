import Cgm.Lemmas.AuditCmd
import Cgm.Trace.C15
#audit_namespace Cg.Trace.C15
