import Cgm.Lemmas.AuditCmd
import Cgm.Props.C02
#audit_namespace Cg.C02
