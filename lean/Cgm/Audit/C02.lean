import Cgm.Lemmas.AuditCmd
import Cgm.Props.C02
import Cgm.Props.C02b
#audit_namespace Cg.C02
