import Cgm.Lemmas.AuditCmd
import Cgm.Trace.C13Paths
#audit_namespace Cg.Trace.C13Paths
