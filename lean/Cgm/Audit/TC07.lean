import Cgm.Lemmas.AuditCmd
import Cgm.Trace.C07
#audit_namespace Cg.Trace.C07
