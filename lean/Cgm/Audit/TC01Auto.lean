import Cgm.Lemmas.AuditCmd
import Cgm.Trace.C01Auto
#audit_namespace Cg.Trace.C01Auto
