import Cgm.Lemmas.AuditCmd
import Cgm.Props.C05
import Cgm.Props.C05b
#audit_namespace Cg.C05
