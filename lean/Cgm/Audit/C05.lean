import Cgm.Lemmas.AuditCmd
import Cgm.Props.C05
import Cgm.Props.C05b
import Cgm.Props.C05c
#audit_namespace Cg.C05
