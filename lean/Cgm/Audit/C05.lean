import Cgm.Lemmas.AuditCmd
import Cgm.Props.C05
#audit_namespace Cg.C05
