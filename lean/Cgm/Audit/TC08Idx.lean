import Cgm.Lemmas.AuditCmd
import Cgm.Trace.C08Idx
#audit_namespace Cg.Trace.C08Idx
