import Cgm.Lemmas.AuditCmd
import Cgm.Trace.C18OpsM
#audit_namespace Cg.Trace.C18OpsM
