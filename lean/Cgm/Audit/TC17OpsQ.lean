import Cgm.Lemmas.AuditCmd
import Cgm.Trace.C17OpsQ
#audit_namespace Cg.Trace.C17OpsQ
