import Cgm.Lemmas.AuditCmd
import Cgm.Trace.C07Auto
#audit_namespace Cg.Trace.C07Auto
