import Cgm.Lemmas.AuditCmd
import Cgm.Props.C18
import Cgm.Props.C18b
#audit_namespace Cg.C18
