import Cgm.Lemmas.AuditCmd
import Cgm.Props.C18
#audit_namespace Cg.C18
