import Cgm.Lemmas.AuditCmd
import Cgm.Props.C18
import Cgm.Props.C18b
import Cgm.Props.C18c
#audit_namespace Cg.C18
