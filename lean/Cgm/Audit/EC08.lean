import Cgm.Lemmas.AuditCmd
import Cgm.E2E.C08
import Cgm.E2E.C08b
import Cgm.E2E.C08g
import Cgm.E2E.C08h
import Cgm.E2E.C08i
#audit_namespace Cg.E2E.C08
