import Cgm.Lemmas.AuditCmd
import Cgm.E2E.C08
import Cgm.E2E.C08b
#audit_namespace Cg.E2E.C08
