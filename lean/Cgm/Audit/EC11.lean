import Cgm.Lemmas.AuditCmd
import Cgm.E2E.C11
import Cgm.E2E.C11h
import Cgm.E2E.C11g
#audit_namespace Cg.E2E.C11
