import Cgm.Lemmas.AuditCmd
import Cgm.Props.C11
import Cgm.Props.C11b
import Cgm.Props.C11c
#audit_namespace Cg.C11
