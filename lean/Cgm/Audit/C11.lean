import Cgm.Lemmas.AuditCmd
import Cgm.Props.C11
#audit_namespace Cg.C11
