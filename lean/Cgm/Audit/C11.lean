import Cgm.Lemmas.AuditCmd
import Cgm.Props.C11
import Cgm.Props.C11b
#audit_namespace Cg.C11
