import Cgm.Lemmas.AuditCmd
import Cgm.Props.C03
import Cgm.Props.C03b
#audit_namespace Cg.C03
