import Cgm.Lemmas.AuditCmd
import Cgm.Props.C03
#audit_namespace Cg.C03
