import Cgm.Lemmas.AuditCmd
import Cgm.Trace.C09More
#audit_namespace Cg.Trace.C09More
