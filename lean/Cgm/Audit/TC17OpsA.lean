import Cgm.Lemmas.AuditCmd
import Cgm.Trace.C17OpsA
#audit_namespace Cg.Trace.C17OpsA
