import Cgm.Lemmas.AuditCmd
import Cgm.Trace.C03Auto
#audit_namespace Cg.Trace.C03Auto
