import Cgm.Lemmas.AuditCmd
import Cgm.Trace.C02IdxE
#audit_namespace Cg.Trace.C02IdxE
