import Cgm.Lemmas.AuditCmd
import Cgm.E2E.C09
import Cgm.E2E.C09b
import Cgm.E2E.C09h
import Cgm.E2E.C09i
import Cgm.E2E.C09g
#audit_namespace Cg.E2E.C09
