import Cgm.Lemmas.AuditCmd
import Cgm.E2E.C09
import Cgm.E2E.C09b
#audit_namespace Cg.E2E.C09
