import Cgm.Lemmas.AuditCmd
import Cgm.E2E.C09
#audit_namespace Cg.E2E.C09
