import Cgm.Lemmas.AuditCmd
import Cgm.E2E.C09
import Cgm.E2E.C09b
import Cgm.E2E.C09h
#audit_namespace Cg.E2E.C09
