import Cgm.Lemmas.AuditCmd
import Cgm.Trace.C08Rest
#audit_namespace Cg.Trace.C08Rest
