import Cgm.Lemmas.AuditCmd
import Cgm.Trace.C17Rest
#audit_namespace Cg.Trace.C17Rest
