import Cgm.Lemmas.AuditCmd
import Cgm.Trace.C09Paths
#audit_namespace Cg.Trace.C09Paths
