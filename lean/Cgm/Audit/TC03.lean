import Cgm.Lemmas.AuditCmd
import Cgm.Trace.C03
#audit_namespace Cg.Trace.C03
