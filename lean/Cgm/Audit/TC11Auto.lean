import Cgm.Lemmas.AuditCmd
import Cgm.Trace.C11Auto
#audit_namespace Cg.Trace.C11Auto
