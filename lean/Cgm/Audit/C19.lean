import Cgm.Lemmas.AuditCmd
import Cgm.Props.C19
#audit_namespace Cg.C19
