import Cgm.Lemmas.AuditCmd
import Cgm.Trace.C17OpsF
#audit_namespace Cg.Trace.C17OpsF
