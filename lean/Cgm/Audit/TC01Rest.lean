import Cgm.Lemmas.AuditCmd
import Cgm.Trace.C01Rest
#audit_namespace Cg.Trace.C01Rest
