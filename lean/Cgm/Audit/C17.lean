import Cgm.Lemmas.AuditCmd
import Cgm.Props.C17
import Cgm.Props.C17b
#audit_namespace Cg.C17
