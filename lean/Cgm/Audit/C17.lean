import Cgm.Lemmas.AuditCmd
import Cgm.Props.C17
import Cgm.Props.C17b
import Cgm.Props.C17c
#audit_namespace Cg.C17
