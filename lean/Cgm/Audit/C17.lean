import Cgm.Lemmas.AuditCmd
import Cgm.Props.C17
#audit_namespace Cg.C17
