import Cgm.Lemmas.AuditCmd
import Cgm.Props.C06
#audit_namespace Cg.C06
