import Cgm.Lemmas.AuditCmd
import Cgm.Props.C06
import Cgm.Props.C06b
#audit_namespace Cg.C06
