import Cgm.Lemmas.AuditCmd
import Cgm.Props.C06
import Cgm.Props.C06b
import Cgm.Props.C06c
#audit_namespace Cg.C06
