import Cgm.Lemmas.AuditCmd
import Cgm.Props.C20
#audit_namespace Cg.C20
