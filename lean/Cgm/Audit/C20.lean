import Cgm.Lemmas.AuditCmd
import Cgm.Props.C20
import Cgm.Props.C20b
#audit_namespace Cg.C20
