import Cgm.Lemmas.AuditCmd
import Cgm.Trace.C08Paths
#audit_namespace Cg.Trace.C08Paths
