import Cgm.Lemmas.AuditCmd
import Cgm.Trace.C05
#audit_namespace Cg.Trace.C05
