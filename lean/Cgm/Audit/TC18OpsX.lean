import Cgm.Lemmas.AuditCmd
import Cgm.Trace.C18OpsX
#audit_namespace Cg.Trace.C18OpsX
