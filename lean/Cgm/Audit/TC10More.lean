import Cgm.Lemmas.AuditCmd
import Cgm.Trace.C10More
#audit_namespace Cg.Trace.C10More
