import Mathlib.Algebra.Order.Field.Basic
import Mathlib.Algebra.Order.AbsoluteValue.Basic
import Mathlib.Tactic.Linarith
import Cgm.Model.Scalar
/-!
# What the model may assume about the `approx` crate's scalar relations

`Approx α` (Cgm/Model/Scalar.lean) is a bare signature.  The two hypothesis structures
below state what `approx`'s `AbsDiffEq` / `RelativeEq` / `UlpsEq` implementations for the
float types guarantee, read at an exact ordered-field scalar:

* `abs_diff_eq(a, b, e)`  is `|a - b| <= e`;
* `relative_eq(a, b, e, m)` is `a == b || |a - b| <= e || |a - b| <= max(|a|,|b|) * m`:
  reflexive for non-negative tolerances, symmetric;
* `ulps_eq(a, b, e, u)` is `abs_diff_eq(a, b, e) || (same sign && ulps distance <= u)`:
  reflexive for a non-negative `e`, symmetric; against `0` the second disjunct can only
  hold for `a = 0` (the integer representation of any non-zero float is at least `2^52`
  away from that of `0` when `|a| > eps`), so `ulps_eq!(x, 0)` holds for `|x| <= eps`
  and fails for `|x| > δ` for every `δ >= eps`.

`ApproxLaws α` has no parameter; `ApproxSpec α δ` adds the two facts about
`ulps_eq!(x, 0)`, with the rejection bound `δ` as a parameter (`δ = eps` for the floats
and for the exact instances; any `δ ≤ 1e-6` is enough for property C08).
Both are satisfiable: see `Cgm/Lemmas/RealApprox.lean`.
-/
set_option linter.unusedSectionVars false
namespace Cg

/-- laws of the three relations that do not mention a bound -/
structure ApproxLaws (α : Type) [Field α] [LinearOrder α] [Approx α] : Prop where
  /-- the default tolerance is non-negative (`f64::EPSILON`) -/
  eps_nonneg : (0 : α) ≤ Approx.eps
  /-- the default relative tolerance is non-negative -/
  maxRel_nonneg : (0 : α) ≤ Approx.maxRel
  absDiffEq_refl : ∀ (x e : α), 0 ≤ e → Approx.absDiffEq x x e = true
  relEq_refl : ∀ (x e m : α), 0 ≤ e → 0 ≤ m → Approx.relEq x x e m = true
  ulpsEq_refl : ∀ (x e : α) (u : Nat), 0 ≤ e → Approx.ulpsEq x x e u = true
  absDiffEq_symm : ∀ (x y e : α), Approx.absDiffEq x y e = Approx.absDiffEq y x e
  relEq_symm : ∀ (x y e m : α), Approx.relEq x y e m = Approx.relEq y x e m
  ulpsEq_symm : ∀ (x y e : α) (u : Nat), Approx.ulpsEq x y e u = Approx.ulpsEq y x e u
  /-- `abs_diff_eq` is the comparison of the distance with the tolerance -/
  absDiffEq_iff : ∀ (x y e : α), Approx.absDiffEq x y e = true ↔ |x - y| ≤ e
  /-- `abs_diff_eq` implies `relative_eq` and `ulps_eq` (their first test) -/
  relEq_of_absDiffEq : ∀ (x y e m : α), Approx.absDiffEq x y e = true → Approx.relEq x y e m = true
  ulpsEq_of_absDiffEq : ∀ (x y e : α) (u : Nat),
    Approx.absDiffEq x y e = true → Approx.ulpsEq x y e u = true

/-- `ApproxLaws` plus the behaviour of `ulps_eq!(x, 0)` (the test `Decomposed::inverse_transform`
applies to the scale): it accepts every `|x| ≤ eps` and rejects every `|x| > δ` -/
structure ApproxSpec (α : Type) [Field α] [LinearOrder α] [Approx α] (δ : α) : Prop
    extends ApproxLaws α where
  ulpsEqD_zero_le : ∀ x : α, ulpsEqD x 0 = true → |x| ≤ δ
  ulpsEqD_zero_of_le : ∀ x : α, |x| ≤ Approx.eps → ulpsEqD x 0 = true

section
variable {α : Type} [Field α] [LinearOrder α] [Approx α]

namespace ApproxLaws
variable (S : ApproxLaws α)
include S

theorem absDiffEqD_refl (x : α) : absDiffEqD x x = true :=
  S.absDiffEq_refl x _ S.eps_nonneg
theorem ulpsEqD_refl (x : α) : ulpsEqD x x = true :=
  S.ulpsEq_refl x _ _ S.eps_nonneg
theorem absDiffEqD_symm (x y : α) : absDiffEqD x y = absDiffEqD y x :=
  S.absDiffEq_symm x y _
theorem ulpsEqD_symm (x y : α) : ulpsEqD x y = ulpsEqD y x :=
  S.ulpsEq_symm x y _ _
/-- `abs_diff_eq!(x, y)` with the default tolerance -/
theorem absDiffEqD_iff (x y : α) : absDiffEqD x y = true ↔ |x - y| ≤ Approx.eps :=
  S.absDiffEq_iff x y _
theorem absDiffEqD_false_iff (x y : α) : absDiffEqD x y = false ↔ Approx.eps < |x - y| := by
  rw [← not_le, ← S.absDiffEqD_iff x y]; simp
/-- `abs_diff_ne!(x, y)` implies `x ≠ y` (uses reflexivity only) -/
theorem ne_of_absDiffEqD_false {x y : α} (h : absDiffEqD x y = false) : x ≠ y := by
  rintro rfl
  rw [S.absDiffEqD_refl] at h
  exact Bool.noConfusion h
theorem ne_of_ulpsEqD_false {x y : α} (h : ulpsEqD x y = false) : x ≠ y := by
  rintro rfl
  rw [S.ulpsEqD_refl] at h
  exact Bool.noConfusion h
theorem ulpsEqD_of_absDiffEqD {x y : α} (h : absDiffEqD x y = true) : ulpsEqD x y = true :=
  S.ulpsEq_of_absDiffEq x y _ _ h
end ApproxLaws

namespace ApproxSpec
variable {δ : α} (S : ApproxSpec α δ)
include S

/-- a scale above the bound is not treated as zero -/
theorem ulpsEqD_zero_false {x : α} (h : δ < |x|) : ulpsEqD x 0 = false := by
  cases hb : ulpsEqD x 0
  · rfl
  · exact absurd (S.ulpsEqD_zero_le x hb) (not_le.mpr h)
theorem ulpsEqD_zero_zero : ulpsEqD (0 : α) 0 = true :=
  S.toApproxLaws.ulpsEqD_refl 0

variable [IsStrictOrderedRing α]
/-- the bound is at least the default tolerance -/
theorem eps_le : (Approx.eps : α) ≤ δ := by
  have h := S.ulpsEqD_zero_le (Approx.eps : α)
    (S.ulpsEqD_zero_of_le _ (by rw [abs_of_nonneg S.eps_nonneg]))
  rwa [abs_of_nonneg S.eps_nonneg] at h
theorem delta_nonneg : 0 ≤ δ := le_trans S.eps_nonneg S.eps_le
/-- a larger rejection bound is a weaker specification -/
theorem mono {δ' : α} (h : δ ≤ δ') : ApproxSpec α δ' :=
  { S with ulpsEqD_zero_le := fun x hx => le_trans (S.ulpsEqD_zero_le x hx) h }
/-- if the bound is the tolerance itself, `ulps_eq!(x, 0)` is `|x| ≤ eps` -/
theorem ulpsEqD_zero_iff (hδ : δ = Approx.eps) (x : α) : ulpsEqD x 0 = true ↔ |x| ≤ Approx.eps :=
  ⟨fun h => hδ ▸ S.ulpsEqD_zero_le x h, S.ulpsEqD_zero_of_le x⟩
end ApproxSpec

/-- `sabs` (the model's `Float::abs`) is the absolute value -/
theorem sabs_eq_abs [IsStrictOrderedRing α] (x : α) : sabs x = |x| := by
  unfold sabs
  split_ifs with h
  · exact (abs_of_neg h).symm
  · exact (abs_of_nonneg (not_lt.mp h)).symm
theorem smin_eq_min (a b : α) : smin a b = min a b := by
  unfold smin
  split_ifs with h
  · exact (min_eq_right h.le).symm
  · exact (min_eq_left (not_lt.mp h)).symm
theorem smax_eq_max (a b : α) : smax a b = max a b := by
  unfold smax
  split_ifs with h
  · exact (max_eq_right h.le).symm
  · exact (max_eq_left (not_lt.mp h)).symm
end

end Cg
