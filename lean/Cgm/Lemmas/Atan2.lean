import Cgm.Lemmas.RealInst
import Mathlib.Analysis.Complex.Norm
/-! `atan2 y x = arg (x + i y)`: polar-coordinate facts used by C07, C09, C11, C15 -/
namespace Cg
open Real

theorem atan2_spec (y x : ℝ) (h : x ≠ 0 ∨ y ≠ 0) :
    Real.sqrt (x * x + y * y) * Real.cos (Complex.arg ⟨x, y⟩) = x ∧
    Real.sqrt (x * x + y * y) * Real.sin (Complex.arg ⟨x, y⟩) = y ∧
    -π < Complex.arg ⟨x, y⟩ ∧ Complex.arg ⟨x, y⟩ ≤ π := by
  have hz : (⟨x, y⟩ : ℂ) ≠ 0 := by
    intro h0
    have h1 := congrArg Complex.re h0
    have h2 := congrArg Complex.im h0
    simp at h1 h2
    rcases h with h | h <;> contradiction
  have hn : ‖(⟨x, y⟩ : ℂ)‖ = Real.sqrt (x * x + y * y) := by
    rw [Complex.norm_def, Complex.normSq_apply]
  have hpos : ‖(⟨x, y⟩ : ℂ)‖ ≠ 0 := by simpa using hz
  refine ⟨?_, ?_, Complex.neg_pi_lt_arg _, Complex.arg_le_pi _⟩
  · rw [Complex.cos_arg hz, ← hn]; field_simp
  · rw [Complex.sin_arg, ← hn]; field_simp

theorem atan2_nonneg_of_nonneg (y x : ℝ) (hy : 0 ≤ y) : 0 ≤ Complex.arg ⟨x, y⟩ :=
  Complex.arg_nonneg_iff.mpr hy

/-- `sqrt ((m / sqrt a)^2 * a) = |m|` for `a > 0` -/
theorem sqrt_scale (a m : ℝ) (ha : 0 < a) : Real.sqrt ((m / Real.sqrt a) ^ 2 * a) = |m| := by
  have hs : Real.sqrt a ^ 2 = a := Real.sq_sqrt ha.le
  have hne : Real.sqrt a ≠ 0 := by positivity
  have : (m / Real.sqrt a) ^ 2 * a = m ^ 2 := by
    rw [div_pow, hs]; field_simp
  rw [this, Real.sqrt_sq_eq_abs]

/-- Cauchy–Schwarz in the form needed for `acos (d / (|u| |v|))` -/
theorem abs_div_le_one (d a b : ℝ) (ha : 0 < a) (hb : 0 < b) (h : d ^ 2 ≤ a * b) :
    -1 ≤ d / (Real.sqrt a * Real.sqrt b) ∧ d / (Real.sqrt a * Real.sqrt b) ≤ 1 := by
  have hab : Real.sqrt a * Real.sqrt b = Real.sqrt (a * b) := (Real.sqrt_mul ha.le b).symm
  have hpos : 0 < Real.sqrt (a * b) := Real.sqrt_pos.mpr (mul_pos ha hb)
  have habs : |d| ≤ Real.sqrt (a * b) := Real.abs_le_sqrt h
  rw [hab]
  obtain ⟨h1, h2⟩ := abs_le.mp habs
  constructor
  · rw [le_div_iff₀ hpos]; linarith
  · rw [div_le_one hpos]; exact h2

/-- the defining property of the `acos`-based angle -/
theorem acos_angle (d a b : ℝ) (ha : 0 < a) (hb : 0 < b) (h : d ^ 2 ≤ a * b) :
    Real.sqrt a * Real.sqrt b * Real.cos (Real.arccos (d / (Real.sqrt a * Real.sqrt b))) = d ∧
    0 ≤ Real.arccos (d / (Real.sqrt a * Real.sqrt b)) ∧
    Real.arccos (d / (Real.sqrt a * Real.sqrt b)) ≤ π := by
  obtain ⟨h1, h2⟩ := abs_div_le_one d a b ha hb h
  have hne : Real.sqrt a * Real.sqrt b ≠ 0 := by positivity
  refine ⟨?_, Real.arccos_nonneg _, Real.arccos_le_pi _⟩
  rw [Real.cos_arccos h1 h2]; field_simp

end Cg
