import Cgm.Lemmas.TraceBase
/-!
# Layer T: formal semantics of the guard lists

A traced kernel `t_k : (Nat → K) → Tr K` is a closed straight-line term: `t_k env = .noneG [..]`
holds for *every* input.  What makes such a kernel "the path the code takes on this input" is that
every comparison it recorded comes out, on this input, as recorded.  `G.holds` says that for one
comparison, `Tr.Consistent` for all the comparisons of a traced path.

With it "`invert` returns `None` exactly when the determinant is zero" is the Lean statement
`(t_invert_none env).Consistent ↔ det = 0` (and `(t_invert_some env).Consistent ↔ det ≠ 0`).

The second part states that `toList` is injective on each fixed-shape structure, so that
`t_k env = .okS x.toList` pins `x`.
-/
namespace Cg

section holds
variable {K : Type} [LT K] [LE K] [Approx K]

/-- the recorded comparison has, on the values it was made on, the recorded outcome -/
def G.holds : G K → Prop
  | .eq a b r => (r = true ↔ a = b)
  | .lt a b r => (r = true ↔ a < b)
  | .le a b r => (r = true ↔ a ≤ b)
  | .absDiff a b e r => (r = true ↔ Approx.absDiffEq a b e = true)
  | .rel a b e m r => (r = true ↔ Approx.relEq a b e m = true)
  | .ulps a b e u r => (r = true ↔ Approx.ulpsEq a b e u = true)
  | .cmp a b o => (o = .lt ↔ a < b) ∧ (o = .eq ↔ a = b) ∧ (o = .gt ↔ b < a)

/-- every comparison of the traced path comes out as recorded: this traced path is the one the code
takes on this input -/
def Tr.Consistent (t : Tr K) : Prop := ∀ g ∈ t.guards, g.holds

@[simp] theorem G.holds_eq_true (a b : K) : (G.eq a b true).holds ↔ a = b := by simp [G.holds]
@[simp] theorem G.holds_eq_false (a b : K) : (G.eq a b false).holds ↔ a ≠ b := by simp [G.holds]
@[simp] theorem G.holds_lt_true (a b : K) : (G.lt a b true).holds ↔ a < b := by simp [G.holds]
@[simp] theorem G.holds_lt_false (a b : K) : (G.lt a b false).holds ↔ ¬ a < b := by simp [G.holds]
@[simp] theorem G.holds_le_true (a b : K) : (G.le a b true).holds ↔ a ≤ b := by simp [G.holds]
@[simp] theorem G.holds_le_false (a b : K) : (G.le a b false).holds ↔ ¬ a ≤ b := by simp [G.holds]
@[simp] theorem G.holds_absDiff_true (a b e : K) :
    (G.absDiff a b e true).holds ↔ Approx.absDiffEq a b e = true := by simp [G.holds]
@[simp] theorem G.holds_absDiff_false (a b e : K) :
    (G.absDiff a b e false).holds ↔ Approx.absDiffEq a b e = false := by simp [G.holds]
@[simp] theorem G.holds_rel_true (a b e m : K) :
    (G.rel a b e m true).holds ↔ Approx.relEq a b e m = true := by simp [G.holds]
@[simp] theorem G.holds_rel_false (a b e m : K) :
    (G.rel a b e m false).holds ↔ Approx.relEq a b e m = false := by simp [G.holds]
@[simp] theorem G.holds_ulps_true (a b e : K) (u : Nat) :
    (G.ulps a b e u true).holds ↔ Approx.ulpsEq a b e u = true := by simp [G.holds]
@[simp] theorem G.holds_ulps_false (a b e : K) (u : Nat) :
    (G.ulps a b e u false).holds ↔ Approx.ulpsEq a b e u = false := by simp [G.holds]
theorem G.holds_cmp (a b : K) (o : Ordering) :
    (G.cmp a b o).holds ↔ (o = .lt ↔ a < b) ∧ (o = .eq ↔ a = b) ∧ (o = .gt ↔ b < a) := Iff.rfl

@[simp] theorem Tr.consistent_okS (l : List K) : (Tr.okS l).Consistent := by
  simp [Tr.Consistent, Tr.okS]
@[simp] theorem Tr.consistent_okG (l : List K) (g : List (G K)) :
    (Tr.okG l g).Consistent ↔ ∀ x ∈ g, x.holds := Iff.rfl
@[simp] theorem Tr.consistent_noneG (g : List (G K)) :
    (Tr.noneG g).Consistent ↔ ∀ x ∈ g, x.holds := Iff.rfl
@[simp] theorem Tr.consistent_panicG (g : List (G K)) :
    (Tr.panicG g).Consistent ↔ ∀ x ∈ g, x.holds := Iff.rfl
/-- of the listed traced paths (the kernels of one function, applied to one input) exactly one is the one the code takes:
some path is consistent and no two are -/
def Tr.ExactlyOne (ts : List (Tr K)) : Prop :=
  (∃ t ∈ ts, t.Consistent) ∧ ts.Pairwise (fun a b => ¬ (a.Consistent ∧ b.Consistent))
/-- with exactly one consistent path, a consistent path is the only one -/
theorem Tr.ExactlyOne.unique {ts : List (Tr K)} (h : Tr.ExactlyOne ts) {i j : Nat} (hi : i < ts.length) (hj : j < ts.length)
    (ci : ts[i].Consistent) (cj : ts[j].Consistent) : i = j := by
  rcases Nat.lt_trichotomy i j with hlt | heq | hgt
  · exact absurd ⟨ci, cj⟩ (List.pairwise_iff_getElem.1 h.2 i j hi hj hlt)
  · exact heq
  · exact absurd ⟨cj, ci⟩ (List.pairwise_iff_getElem.1 h.2 j i hj hi hgt)
theorem Tr.consistent_mk (r : TrRes) (o : List K) (b : List Bool) (g : List (G K)) :
    (Tr.mk r o b g).Consistent ↔ ∀ x ∈ g, x.holds := Iff.rfl
end holds

section cmp
variable {K : Type} [LinearOrder K] [Approx K]
/-- over a linear order a three-way comparison is determined by the operands -/
@[simp] theorem G.holds_cmp_lt (a b : K) : (G.cmp a b .lt).holds ↔ a < b := by
  simp only [G.holds, true_iff, reduceCtorEq, false_iff]
  exact ⟨fun h => h.1, fun h => ⟨h, ne_of_lt h, not_lt_of_gt h⟩⟩
@[simp] theorem G.holds_cmp_eq (a b : K) : (G.cmp a b .eq).holds ↔ a = b := by
  simp only [G.holds, true_iff, reduceCtorEq, false_iff]
  exact ⟨fun h => h.2.1, fun h => ⟨by simp [h], h, by simp [h]⟩⟩
@[simp] theorem G.holds_cmp_gt (a b : K) : (G.cmp a b .gt).holds ↔ b < a := by
  simp only [G.holds, true_iff, reduceCtorEq, false_iff]
  exact ⟨fun h => h.2.2, fun h => ⟨not_lt_of_gt h, (ne_of_lt h).symm, h⟩⟩
end cmp

/-! ## `toList` is injective on every fixed-shape structure -/
section inj
variable {α : Type}

theorem V1.toList_injective : Function.Injective (V1.toList : V1 α → List α) := by
  intro a b h; simp only [V1.toList, List.cons.injEq, and_true] at h; ext; exact h
theorem V2.toList_injective : Function.Injective (V2.toList : V2 α → List α) := by
  intro a b h; simp only [V2.toList, List.cons.injEq, and_true] at h
  ext; exacts [h.1, h.2]
theorem V3.toList_injective : Function.Injective (V3.toList : V3 α → List α) := by
  intro a b h; simp only [V3.toList, List.cons.injEq, and_true] at h
  ext; exacts [h.1, h.2.1, h.2.2]
theorem V4.toList_injective : Function.Injective (V4.toList : V4 α → List α) := by
  intro a b h; simp only [V4.toList, List.cons.injEq, and_true] at h
  ext; exacts [h.1, h.2.1, h.2.2.1, h.2.2.2]
theorem P1.toList_injective : Function.Injective (P1.toList : P1 α → List α) := by
  intro a b h; simp only [P1.toList, List.cons.injEq, and_true] at h; ext; exact h
theorem P2.toList_injective : Function.Injective (P2.toList : P2 α → List α) := by
  intro a b h; simp only [P2.toList, List.cons.injEq, and_true] at h
  ext; exacts [h.1, h.2]
theorem P3.toList_injective : Function.Injective (P3.toList : P3 α → List α) := by
  intro a b h; simp only [P3.toList, List.cons.injEq, and_true] at h
  ext; exacts [h.1, h.2.1, h.2.2]
theorem Quat.toList_injective : Function.Injective (Quat.toList : Quat α → List α) := by
  intro a b h; simp only [Quat.toList, List.cons.injEq, and_true] at h
  obtain ⟨⟨ax, ay, az⟩, as⟩ := a
  obtain ⟨⟨bx, b_y, bz⟩, bs⟩ := b
  simp only at h
  obtain ⟨rfl, rfl, rfl, rfl⟩ := h
  rfl
theorem M2.toList_injective : Function.Injective (M2.toList : M2 α → List α) := by
  intro a b h
  simp only [M2.toList, V2.toList, List.cons_append, List.nil_append, List.cons.injEq, and_true] at h
  ext <;> simp [h]
theorem M3.toList_injective : Function.Injective (M3.toList : M3 α → List α) := by
  intro a b h
  simp only [M3.toList, V3.toList, List.cons_append, List.nil_append, List.cons.injEq, and_true] at h
  ext <;> simp [h]
theorem M4.toList_injective : Function.Injective (M4.toList : M4 α → List α) := by
  intro a b h
  simp only [M4.toList, V4.toList, List.cons_append, List.nil_append, List.cons.injEq, and_true] at h
  ext <;> simp [h]

@[simp] theorem V1.toList_inj {a b : V1 α} : a.toList = b.toList ↔ a = b := V1.toList_injective.eq_iff
@[simp] theorem V2.toList_inj {a b : V2 α} : a.toList = b.toList ↔ a = b := V2.toList_injective.eq_iff
@[simp] theorem V3.toList_inj {a b : V3 α} : a.toList = b.toList ↔ a = b := V3.toList_injective.eq_iff
@[simp] theorem V4.toList_inj {a b : V4 α} : a.toList = b.toList ↔ a = b := V4.toList_injective.eq_iff
@[simp] theorem P1.toList_inj {a b : P1 α} : a.toList = b.toList ↔ a = b := P1.toList_injective.eq_iff
@[simp] theorem P2.toList_inj {a b : P2 α} : a.toList = b.toList ↔ a = b := P2.toList_injective.eq_iff
@[simp] theorem P3.toList_inj {a b : P3 α} : a.toList = b.toList ↔ a = b := P3.toList_injective.eq_iff
@[simp] theorem M2.toList_inj {a b : M2 α} : a.toList = b.toList ↔ a = b := M2.toList_injective.eq_iff
@[simp] theorem M3.toList_inj {a b : M3 α} : a.toList = b.toList ↔ a = b := M3.toList_injective.eq_iff
@[simp] theorem M4.toList_inj {a b : M4 α} : a.toList = b.toList ↔ a = b := M4.toList_injective.eq_iff
@[simp] theorem Quat.toList_inj {a b : Quat α} : a.toList = b.toList ↔ a = b := Quat.toList_injective.eq_iff

/-- the constructors of `Tr` used by the kernels are injective in the output list: an equation
`t_k env = .okS x.toList` pins `x` -/
theorem Tr.okS_inj {l l' : List α} : (Tr.okS l = Tr.okS l') ↔ l = l' := by
  simp [Tr.okS]
theorem Tr.okG_inj {l l' : List α} {g g' : List (G α)} : (Tr.okG l g = Tr.okG l' g') ↔ l = l' ∧ g = g' := by
  simp [Tr.okG]

/-- what "pinned" means: two structures whose flattenings a kernel equals are equal -/
theorem Tr.okS_pins {β : Type} {f : β → List α} (hf : Function.Injective f) {t : Tr α} {x y : β}
    (hx : t = .okS (f x)) (hy : t = .okS (f y)) : x = y :=
  hf (Tr.okS_inj.1 (hx.symm.trans hy))
theorem Tr.okG_pins {β : Type} {f : β → List α} (hf : Function.Injective f) {t : Tr α} {x y : β}
    {g g' : List (G α)} (hx : t = .okG (f x) g) (hy : t = .okG (f y) g') : x = y :=
  hf (Tr.okG_inj.1 (hx.symm.trans hy)).1
end inj

/-- the results are distinct: a kernel equal to a `noneG`/`panicG` constant is not an `ok` one -/
theorem Tr.noneG_ne_okG {α : Type} (g g' : List (G α)) (l : List α) : Tr.noneG g ≠ Tr.okG l g' := by
  simp [Tr.noneG, Tr.okG]
theorem Tr.panicG_ne_okG {α : Type} (g g' : List (G α)) (l : List α) : Tr.panicG g ≠ Tr.okG l g' := by
  simp [Tr.panicG, Tr.okG]
end Cg
