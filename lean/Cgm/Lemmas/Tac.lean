import Mathlib.Tactic.Ring
import Mathlib.Tactic.FieldSimp
import Mathlib.Tactic.LinearCombination
import Cgm.Model.Mat
/-!
Simp set `cg` (definitional unfolding of the model) and the work-horse tactic
`cg_ring`: split structures field by field, unfold the model, close with `ring`.
-/
namespace Cg

attribute [simp] V1.map V2.map V3.map V4.map V1.zip V2.zip V3.zip V4.zip
  V1.fromValue V2.fromValue V3.fromValue V4.fromValue
  V2.extend V3.extend V3.truncate V4.truncate V4.truncate0 V4.truncate1 V4.truncate2 V4.truncate3
  V1.mulEw V2.mulEw V3.mulEw V4.mulEw V1.divEw V2.divEw V3.divEw V4.divEw
  V1.addS V2.addS V3.addS V4.addS V1.subS V2.subS V3.subS V4.subS
  V1.sum V2.sum V3.sum V4.sum V1.product V2.product V3.product V4.product
  V1.dot V2.dot V3.dot V4.dot V1.magnitude2 V2.magnitude2 V3.magnitude2 V4.magnitude2
  V1.distance2 V2.distance2 V3.distance2 V4.distance2 V2.perpDot V3.cross
  V1.lerp V2.lerp V3.lerp V4.lerp V1.projectOn V2.projectOn V3.projectOn V4.projectOn
  V1.zero V2.zero V3.zero V4.zero V1.unitX V2.unitX V2.unitY V3.unitX V3.unitY V3.unitZ
  V4.unitX V4.unitY V4.unitZ V4.unitW
  P1.fromVec P2.fromVec P3.fromVec P1.toVec P2.toVec P3.toVec
  P1.addEw P2.addEw P3.addEw P1.subEw P2.subEw P3.subEw P1.mulEw P2.mulEw P3.mulEw
  P1.divEw P2.divEw P3.divEw P1.addS P2.addS P3.addS P1.subS P2.subS P3.subS
  P1.dot P2.dot P3.dot P1.distance2 P2.distance2 P3.distance2
  P1.midpoint P2.midpoint P3.midpoint P3.fromHomogeneous P3.toHomogeneous
  P1.origin P2.origin P3.origin
  M2.new M3.new M4.new M2.row0 M2.row1 M3.row0 M3.row1 M3.row2 M4.row0 M4.row1 M4.row2 M4.row3
  M2.transpose M3.transpose M4.transpose M2.diagonal M3.diagonal M4.diagonal
  M2.fromValue M3.fromValue M4.fromValue M2.fromDiagonal M3.fromDiagonal M4.fromDiagonal
  M2.one M3.one M4.one M2.zero M3.zero M4.zero M3.fromTranslation M4.fromTranslation
  M3.fromNonuniformScale M4.fromNonuniformScale M3.fromScale M4.fromScale
  M2.toM3 M2.toM4 M3.toM4 M2.mulVec M3.mulVec M4.mulVec M2.mul M3.mul M4.mul
  M2.trace M3.trace M4.trace M2.det M3.det
  M3.transformVector2 M3.transformPoint2 M3.transformVector M3.transformPoint
  M4.transformVector M4.transformPoint

@[simp] theorem M4.flat_0 {α : Type} (m : M4 α) : m.flat 0 = m.x.x := rfl
@[simp] theorem M4.flat_1 {α : Type} (m : M4 α) : m.flat 1 = m.x.y := rfl
@[simp] theorem M4.flat_2 {α : Type} (m : M4 α) : m.flat 2 = m.x.z := rfl
@[simp] theorem M4.flat_3 {α : Type} (m : M4 α) : m.flat 3 = m.x.w := rfl
@[simp] theorem M4.flat_4 {α : Type} (m : M4 α) : m.flat 4 = m.y.x := rfl
@[simp] theorem M4.flat_5 {α : Type} (m : M4 α) : m.flat 5 = m.y.y := rfl
@[simp] theorem M4.flat_6 {α : Type} (m : M4 α) : m.flat 6 = m.y.z := rfl
@[simp] theorem M4.flat_7 {α : Type} (m : M4 α) : m.flat 7 = m.y.w := rfl
@[simp] theorem M4.flat_8 {α : Type} (m : M4 α) : m.flat 8 = m.z.x := rfl
@[simp] theorem M4.flat_9 {α : Type} (m : M4 α) : m.flat 9 = m.z.y := rfl
@[simp] theorem M4.flat_10 {α : Type} (m : M4 α) : m.flat 10 = m.z.z := rfl
@[simp] theorem M4.flat_11 {α : Type} (m : M4 α) : m.flat 11 = m.z.w := rfl
@[simp] theorem M4.flat_12 {α : Type} (m : M4 α) : m.flat 12 = m.w.x := rfl
@[simp] theorem M4.flat_13 {α : Type} (m : M4 α) : m.flat 13 = m.w.y := rfl
@[simp] theorem M4.flat_14 {α : Type} (m : M4 α) : m.flat 14 = m.w.z := rfl
@[simp] theorem M4.flat_15 {α : Type} (m : M4 α) : m.flat 15 = m.w.w := rfl

/-- unfold the model and finish with `ring` on every component -/
macro "cg_ring" : tactic =>
  `(tactic| (first
    | (ext <;> simp <;> ring)
    | (simp <;> ring)))

end Cg
