import Mathlib.Analysis.SpecialFunctions.Trigonometric.Bounds
import Mathlib.Analysis.SpecialFunctions.Trigonometric.Inverse
import Mathlib.Analysis.Real.Pi.Bounds
import Mathlib.Tactic.Linarith
import Mathlib.Tactic.Ring
import Mathlib.Tactic.FieldSimp
import Mathlib.Tactic.Positivity
/-!
# How far `nlerp` strays from constant angular speed when the end points are close (C14)

Two unit vectors at angle `θ = arccos d`; the normalised blend `(1 - t) a + t b` makes with `a` the
angle `α` with `cos α = ((1 - t) + t d) / √N`, `N = (1 - t)² + t² + 2 (1 - t) t d`.  Then
`√N · sin (α - t θ) = t sin ((1 - t) θ) - (1 - t) sin (t θ)`, and `x - x³/6 < sin x ≤ x` bounds the
right-hand side by `θ³ / 6`.  For `d > 0.9995` (`θ < 0.032`) this is below `1e-5` with a wide margin.
-/
namespace Cg.NlerpArc
open Real

theorem sin_bounds {x : ℝ} (hx : 0 ≤ x) : x - x ^ 3 / 6 ≤ sin x ∧ sin x ≤ x := by
  refine ⟨?_, sin_le hx⟩
  rcases hx.lt_or_eq with h | h
  · exact (sin_gt_sub_cube h).le
  · rw [← h]; simp

/-- the numerator `t sin ((1 - t) θ) - (1 - t) sin (t θ)` is at most `θ³ / 24` in absolute value -/
theorem num_bound {t θ : ℝ} (ht0 : 0 ≤ t) (ht1 : t ≤ 1) (hθ : 0 ≤ θ) :
    |t * sin ((1 - t) * θ) - (1 - t) * sin (t * θ)| ≤ θ ^ 3 / 24 := by
  have h1t : 0 ≤ 1 - t := by linarith
  obtain ⟨l1, u1⟩ := sin_bounds (mul_nonneg h1t hθ)
  obtain ⟨l2, u2⟩ := sin_bounds (mul_nonneg ht0 hθ)
  have hθ3 : 0 ≤ θ ^ 3 := by positivity
  have hA : 0 ≤ t * (1 - t) ^ 3 := by positivity
  have hB : 0 ≤ (1 - t) * t ^ 3 := by positivity
  have hq : t * (1 - t) ≤ 1 / 4 := by nlinarith [sq_nonneg (t - 1 / 2)]
  have hq0 : 0 ≤ t * (1 - t) := mul_nonneg ht0 h1t
  have hA1 : t * (1 - t) ^ 3 ≤ 1 / 4 := by
    have h2 : (1 - t) ^ 2 ≤ 1 := by nlinarith
    have h20 : 0 ≤ (1 - t) ^ 2 := by positivity
    have : t * (1 - t) ^ 3 = (t * (1 - t)) * (1 - t) ^ 2 := by ring
    rw [this]; nlinarith
  have hB1 : (1 - t) * t ^ 3 ≤ 1 / 4 := by
    have h2 : t ^ 2 ≤ 1 := by nlinarith
    have h20 : 0 ≤ t ^ 2 := by positivity
    have : (1 - t) * t ^ 3 = (t * (1 - t)) * t ^ 2 := by ring
    rw [this]; nlinarith
  rw [abs_le]
  constructor
  · -- ≥ -(t (1-t)³ θ³ / 6)
    have : t * sin ((1 - t) * θ) ≥ t * ((1 - t) * θ - ((1 - t) * θ) ^ 3 / 6) := mul_le_mul_of_nonneg_left l1 ht0
    have : (1 - t) * sin (t * θ) ≤ (1 - t) * (t * θ) := mul_le_mul_of_nonneg_left u2 h1t
    have key : t * ((1 - t) * θ - ((1 - t) * θ) ^ 3 / 6) - (1 - t) * (t * θ) = -(t * (1 - t) ^ 3 * θ ^ 3 / 6) := by ring
    nlinarith [mul_le_mul_of_nonneg_right hA1 hθ3]
  · have : t * sin ((1 - t) * θ) ≤ t * ((1 - t) * θ) := mul_le_mul_of_nonneg_left u1 ht0
    have : (1 - t) * sin (t * θ) ≥ (1 - t) * (t * θ - (t * θ) ^ 3 / 6) := mul_le_mul_of_nonneg_left l2 h1t
    have key : t * ((1 - t) * θ) - (1 - t) * (t * θ - (t * θ) ^ 3 / 6) = (1 - t) * t ^ 3 * θ ^ 3 / 6 := by ring
    nlinarith [mul_le_mul_of_nonneg_right hB1 hθ3]


/-- `θ = arccos d` for `d > 0.9995` is a small non-negative angle -/
theorem theta_small {d : ℝ} (hd0 : 0.9995 < d) (hd1 : d ≤ 1) :
    0 ≤ arccos d ∧ arccos d ≤ 0.0317 ∧ cos (arccos d) = d ∧ 0 ≤ sin (arccos d) ∧
      sin (arccos d) ^ 2 = 1 - d ^ 2 := by
  set θ := arccos d with hθdef
  have hθ0 : 0 ≤ θ := arccos_nonneg d
  have hcos : cos θ = d := cos_arccos (by linarith) hd1
  have hθpi : θ ≤ π / 2 := arccos_le_pi_div_two.mpr (by linarith)
  have hsin0 : 0 ≤ sin θ := sin_nonneg_of_nonneg_of_le_pi hθ0 (by linarith [pi_pos])
  have hsin2 : sin θ ^ 2 = 1 - d ^ 2 := by
    have := sin_sq_add_cos_sq θ
    rw [hcos] at this; linarith
  have hsin_small : sin θ ≤ 0.03162 := by
    have h : sin θ ^ 2 ≤ 0.03162 ^ 2 := by rw [hsin2]; nlinarith
    exact (abs_le.mp (abs_le_of_sq_le_sq h (by norm_num))).2
  have hpi : π < 3.15 := pi_lt_d2
  have hθ1 : θ ≤ 0.05 := by
    have hj := mul_le_sin hθ0 hθpi
    have h1 : 2 / π * θ ≤ 0.03162 := le_trans hj hsin_small
    have h2 : 2 / 3.15 ≤ 2 / π := div_le_div_of_nonneg_left (by norm_num) pi_pos hpi.le
    have h3 : 2 / 3.15 * θ ≤ 2 / π * θ := mul_le_mul_of_nonneg_right h2 hθ0
    have : 2 / 3.15 * θ ≤ 0.03162 := le_trans h3 h1
    norm_num at this ⊢
    linarith
  have hθ2 : θ ≤ 0.0317 := by
    obtain ⟨l, _⟩ := sin_bounds hθ0
    have hsq : θ ^ 2 ≤ 0.0025 := by nlinarith
    have h3 : θ ^ 3 ≤ 0.0025 * θ := by
      have : θ ^ 3 = θ ^ 2 * θ := by ring
      rw [this]; exact mul_le_mul_of_nonneg_right hsq hθ0
    linarith
  exact ⟨hθ0, hθ2, hcos, hsin0, hsin2⟩

/-- `N = |(1 - t) a + t b|²` and `u = a · ((1 - t) a + t b)` for unit `a`, `b` with `a · b = d` -/
theorem N_bounds {d t : ℝ} (hd0 : 0.9995 < d) (hd1 : d ≤ 1) (ht0 : 0 ≤ t) (ht1 : t ≤ 1) :
    0.99 ≤ (1 - t) * (1 - t) + t * t + 2 * (1 - t) * t * d ∧ 0 ≤ (1 - t) + t * d ∧
      ((1 - t) + t * d) * ((1 - t) + t * d) + t * t * (1 - d ^ 2) =
        (1 - t) * (1 - t) + t * t + 2 * (1 - t) * t * d ∧ 0 ≤ 1 - d ^ 2 := by
  have h1t : 0 ≤ 1 - t := by linarith
  have hq : t * (1 - t) ≤ 1 / 4 := by nlinarith [sq_nonneg (t - 1 / 2)]
  have hq0 : 0 ≤ t * (1 - t) := mul_nonneg ht0 h1t
  refine ⟨by nlinarith, by nlinarith, by ring, by nlinarith⟩

/-- the arc covered by `nlerp` at parameter `t` differs from `t` times the whole arc by less than `1e-5`
radians when the end points are closer than `arccos 0.9995` -/
theorem arc_bound {d t : ℝ} (hd0 : 0.9995 < d) (hd1 : d ≤ 1) (ht0 : 0 ≤ t) (ht1 : t ≤ 1) :
    |arccos (((1 - t) + t * d) / √((1 - t) * (1 - t) + t * t + 2 * (1 - t) * t * d)) - t * arccos d| ≤ 1e-5 := by
  have h1t : 0 ≤ 1 - t := by linarith
  obtain ⟨hθ0, hθ2, hcos, hsin0, hsin2⟩ := theta_small hd0 hd1
  obtain ⟨hN1, hu0, huN, hd2⟩ := N_bounds hd0 hd1 ht0 ht1
  set θ := arccos d with hθdef
  have hθpi : θ ≤ π / 2 := arccos_le_pi_div_two.mpr (by linarith)
  have hpi : π < 3.15 := pi_lt_d2
  set N := (1 - t) * (1 - t) + t * t + 2 * (1 - t) * t * d with hN
  have hNpos : 0 < N := by linarith
  have hsN : 0 < √N := sqrt_pos.mpr hNpos
  have hsN2 : √N * √N = N := mul_self_sqrt hNpos.le
  have hsN1 : 0.99 ≤ √N := by
    rw [show (0.99 : ℝ) = √(0.99 ^ 2) from (sqrt_sq (by norm_num)).symm]
    exact sqrt_le_sqrt (by norm_num at hN1 ⊢; linarith)
  set u := (1 - t) + t * d with hu
  set c := u / √N with hc
  have hc0 : 0 ≤ c := div_nonneg hu0 hsN.le
  have hsq : √N ^ 2 = N := sq_sqrt hNpos.le
  have hcN : c * √N = u := by rw [hc]; field_simp
  have hcc : c * c * N = u * u := by
    linear_combination (-(c * c)) * hsN2 + (c * √N + u) * hcN
  have hcc1 : c * c ≤ 1 := by
    have h1 : c * c * N ≤ 1 * N := by
      rw [hcc, one_mul]
      have := mul_nonneg (mul_nonneg ht0 ht0) hd2
      linarith
    exact le_of_mul_le_mul_right h1 hNpos
  have hc1 : c ≤ 1 := by
    by_contra hcon
    rw [not_le] at hcon
    have : 1 * 1 < c * c := mul_lt_mul'' hcon hcon (by norm_num) (by norm_num)
    linarith
  set α := arccos c with hα
  have hα0 : 0 ≤ α := arccos_nonneg c
  have hαpi : α ≤ π / 2 := arccos_le_pi_div_two.mpr hc0
  have hcosα : cos α = c := cos_arccos (by linarith) hc1
  have hsinα : sin α = t * sin θ / √N := by
    rw [hα, sin_arccos]
    have hnn : 0 ≤ t * sin θ / √N := div_nonneg (mul_nonneg ht0 hsin0) hsN.le
    have hsq : (t * sin θ / √N) ^ 2 = 1 - c ^ 2 := by
      have e1 : (t * sin θ / √N) ^ 2 * N = t * t * (1 - d ^ 2) := by
        rw [div_pow, mul_pow, hsin2, hsq]; field_simp
      have e2 : (1 - c ^ 2) * N = t * t * (1 - d ^ 2) := by
        have : c ^ 2 * N = u * u := by rw [sq]; exact hcc
        linarith
      have := mul_right_cancel₀ (ne_of_gt hNpos) (e1.trans e2.symm)
      exact this
    rw [← hsq, sqrt_sq hnn]
  -- √N · sin (α - tθ) = t sin ((1-t)θ) - (1-t) sin (tθ)
  have hkey : √N * sin (α - t * θ) = t * sin ((1 - t) * θ) - (1 - t) * sin (t * θ) := by
    have e : (1 - t) * θ = θ - t * θ := by ring
    rw [sin_sub, hsinα, hcosα, e, sin_sub, hcos, hc, hu]
    field_simp
    ring
  have hnum := num_bound ht0 ht1 hθ0
  have hsinδ : |sin (α - t * θ)| ≤ θ ^ 3 / 24 / 0.99 := by
    have h1 : |√N * sin (α - t * θ)| ≤ θ ^ 3 / 24 := by rw [hkey]; exact hnum
    rw [abs_mul, abs_of_pos hsN] at h1
    have hθ3 : 0 ≤ θ ^ 3 / 24 := by positivity
    rw [le_div_iff₀ (by norm_num)]
    calc |sin (α - t * θ)| * 0.99 = 0.99 * |sin (α - t * θ)| := by ring
      _ ≤ √N * |sin (α - t * θ)| := mul_le_mul_of_nonneg_right hsN1 (abs_nonneg _)
      _ ≤ θ ^ 3 / 24 := h1
  have htθ0 : 0 ≤ t * θ := mul_nonneg ht0 hθ0
  have htθ1 : t * θ ≤ θ := by
    have := mul_le_mul_of_nonneg_right ht1 hθ0
    linarith
  -- |δ| ≤ (π/2) |sin δ|
  have hδ : |α - t * θ| ≤ π / 2 * |sin (α - t * θ)| := by
    rcases le_total 0 (α - t * θ) with hp | hn
    · have hj := mul_le_sin hp (by linarith)
      rw [abs_of_nonneg hp, abs_of_nonneg (le_trans (by positivity) hj)]
      have : α - t * θ = π / 2 * (2 / π * (α - t * θ)) := by field_simp
      calc α - t * θ = π / 2 * (2 / π * (α - t * θ)) := this
        _ ≤ π / 2 * sin (α - t * θ) := by apply mul_le_mul_of_nonneg_left hj; positivity
    · have hj := sin_le_mul (by linarith : -(π / 2) ≤ α - t * θ) hn
      have hs : sin (α - t * θ) ≤ 0 := le_trans hj (mul_nonpos_of_nonneg_of_nonpos (by positivity) hn)
      rw [abs_of_nonpos hn, abs_of_nonpos hs]
      have : -(α - t * θ) = π / 2 * (-(2 / π * (α - t * θ))) := by field_simp
      calc -(α - t * θ) = π / 2 * (-(2 / π * (α - t * θ))) := this
        _ ≤ π / 2 * (-sin (α - t * θ)) := by apply mul_le_mul_of_nonneg_left (by linarith); positivity
  have hθ3 : θ ^ 3 ≤ 0.0317 ^ 3 := pow_le_pow_left₀ hθ0 hθ2 3
  have hfin : π / 2 * |sin (α - t * θ)| ≤ 1e-5 := by
    have h1 : |sin (α - t * θ)| ≤ 0.0317 ^ 3 / 24 / 0.99 := by
      apply le_trans hsinδ
      apply div_le_div_of_nonneg_right _ (by norm_num)
      apply div_le_div_of_nonneg_right hθ3 (by norm_num)
    have h2 : π / 2 ≤ 1.575 := by linarith
    calc π / 2 * |sin (α - t * θ)| ≤ 1.575 * (0.0317 ^ 3 / 24 / 0.99) :=
          mul_le_mul h2 h1 (abs_nonneg _) (by norm_num)
      _ ≤ 1e-5 := by norm_num
  exact le_trans hδ hfin

end Cg.NlerpArc
