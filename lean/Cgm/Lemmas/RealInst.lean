import Mathlib.Analysis.SpecialFunctions.Trigonometric.Inverse
import Mathlib.Analysis.SpecialFunctions.Trigonometric.Arctan
import Mathlib.Analysis.SpecialFunctions.Complex.Arg
import Mathlib.Analysis.SpecialFunctions.Sqrt
import Cgm.Lemmas.QuatBridge
/-!
The model's external scalar functions instantiated at `ℝ` with the real
functions (`atan2 y x = arg (x + i y)`).  Theorems "over ℝ" are about this
instance: they assume `num_traits::Float` computes the real functions.
-/
namespace Cg

noncomputable instance instTranscReal : Transc ℝ where
  sqrt := Real.sqrt
  sin := Real.sin
  cos := Real.cos
  tan := Real.tan
  asin := Real.arcsin
  acos := Real.arccos
  atan := Real.arctan
  atan2 := fun y x => Complex.arg ⟨x, y⟩

@[simp] theorem transc_sqrt (x : ℝ) : Transc.sqrt x = Real.sqrt x := rfl
@[simp] theorem transc_sin (x : ℝ) : Transc.sin x = Real.sin x := rfl
@[simp] theorem transc_cos (x : ℝ) : Transc.cos x = Real.cos x := rfl
@[simp] theorem transc_tan (x : ℝ) : Transc.tan x = Real.tan x := rfl
@[simp] theorem transc_asin (x : ℝ) : Transc.asin x = Real.arcsin x := rfl
@[simp] theorem transc_acos (x : ℝ) : Transc.acos x = Real.arccos x := rfl
@[simp] theorem transc_atan (x : ℝ) : Transc.atan x = Real.arctan x := rfl
@[simp] theorem transc_atan2 (y x : ℝ) : Transc.atan2 y x = Complex.arg ⟨x, y⟩ := rfl

theorem sqrt_four_sq (a : ℝ) : Real.sqrt (4 * a ^ 2) = 2 * |a| := by
  have : (4 : ℝ) * a ^ 2 = (2 * a) ^ 2 := by ring
  rw [this, Real.sqrt_sq_eq_abs, abs_mul]; simp

end Cg
