import Mathlib.Tactic.Linarith
import Mathlib.Tactic.Ring
import Mathlib.Tactic.LinearCombination
import Mathlib.Tactic.FieldSimp
import Mathlib.Tactic.Positivity
import Mathlib.Tactic.NormNum
import Mathlib.Data.Real.Basic
import Mathlib.Algebra.Order.AbsoluteValue.Basic
/-!
# The 0.13 envelope of the gimbal-lock branches (C07), as real-number inequalities

Inside a gimbal cone a unit quaternion `(w; x, y, z)` has `|xz + yw| > 0.499`, i.e.
`a² + b² < 0.002` for `(a, b) = (w ∓ y, x ∓ z)`.  Every element of
"matrix rebuilt from the reported Euler angles − matrix of the quaternion" is, after using
`w² + x² + y² + z² = 1`, of the form `2 k L + k' δ − r` with `|k|, |k'| ≤ 1`, `L` a linear form
in `(a, b)` with coefficients `(±w, ±x)` (so `|L| ≤ √0.002`), `δ = a² + b²` and `|r| ≤ δ`.
-/
namespace Cg.Gimbal

theorem abs_lin_le {a b p q : ℝ} (hd : a * a + b * b < 0.002) (hr : p * p + q * q ≤ 1) :
    |a * p + b * q| ≤ 0.045 := by
  have h : (a * p + b * q) ^ 2 ≤ (a * a + b * b) * (p * p + q * q) := by
    nlinarith [sq_nonneg (a * q - b * p)]
  have h0 : 0 ≤ a * a + b * b := by nlinarith [mul_self_nonneg a, mul_self_nonneg b]
  have h0' : 0 ≤ p * p + q * q := by nlinarith [mul_self_nonneg p, mul_self_nonneg q]
  have h2 : (a * p + b * q) ^ 2 ≤ (0.045 : ℝ) ^ 2 := by
    have : (a * a + b * b) * (p * p + q * q) ≤ 0.002 * 1 := by
      apply mul_le_mul (le_of_lt hd) hr h0' (by norm_num)
    norm_num at this ⊢
    linarith
  exact abs_le_of_sq_le_sq h2 (by norm_num)

theorem bound {k k' L d r : ℝ} (hk : |k| ≤ 1) (hk' : |k'| ≤ 1) (hL : |L| ≤ 0.045) (hd0 : 0 ≤ d)
    (hd : d < 0.002) (hr : |r| ≤ 0.002) : |2 * k * L + k' * d - r| ≤ 0.13 := by
  have h1 : |2 * k * L| ≤ 0.09 := by
    rw [abs_mul, abs_mul]
    have : |(2 : ℝ)| = 2 := by norm_num
    rw [this]
    nlinarith [abs_nonneg k, abs_nonneg L]
  have h2 : |k' * d| ≤ 0.002 := by
    rw [abs_mul, abs_of_nonneg hd0]
    nlinarith [abs_nonneg k']
  calc |2 * k * L + k' * d - r| ≤ |2 * k * L + k' * d| + |r| := abs_sub _ _
    _ ≤ |2 * k * L| + |k' * d| + |r| := by linarith [abs_add_le (2 * k * L) (k' * d)]
    _ ≤ 0.13 := by linarith


/-- the nine element differences, in the coordinates `(a, b) = (w ∓ y, x ∓ z)`; `s`, `c` are
`sin`, `cos` of twice the polar angle of `(w, x)` -/
theorem core {w x a b s c : ℝ}
    (hu : 2 * w * w + 2 * x * x - 2 * a * w - 2 * b * x + a * a + b * b = 1)
    (hd : a * a + b * b < 0.002)
    (hs : s * (w * w + x * x) = 2 * x * w) (hc : c * (w * w + x * x) = w * w - x * x) :
    |a * a + b * b - 2 * (a * w + b * x)| ≤ 0.13 ∧
    |s - 4 * w * x + 2 * (a * x + b * w)| ≤ 0.13 ∧
    |-c + 2 * (w * w - x * x) - 2 * (a * w - b * x)| ≤ 0.13 ∧
    |2 * (a * x - b * w)| ≤ 0.13 ∧
    |c - 2 * (w * w - x * x) + 2 * (a * w - b * x) - (a * a - b * b)| ≤ 0.13 ∧
    |s - 4 * w * x + 2 * (a * x + b * w) - 2 * a * b| ≤ 0.13 ∧
    |a * a + b * b| ≤ 0.13 ∧
    |2 * (a * x + b * w - a * b)| ≤ 0.13 ∧
    |a * a - b * b - 2 * (a * w - b * x)| ≤ 0.13 := by
  have hd0 : 0 ≤ a * a + b * b := by nlinarith [mul_self_nonneg a, mul_self_nonneg b]
  -- ρ² = w² + x² lies in (0, 1]
  have hρ1 : w * w + x * x ≤ 1 := by nlinarith [mul_self_nonneg (w - a), mul_self_nonneg (x - b)]
  have hρ2 : x * x + w * w ≤ 1 := by linarith
  have hρ3 : (-x) * (-x) + w * w ≤ 1 := by linarith
  have hρ4 : w * w + (-x) * (-x) ≤ 1 := by linarith
  have hρ5 : x * x + (-w) * (-w) ≤ 1 := by linarith
  have L1 := abs_lin_le hd hρ1            -- a w + b x
  have L2 := abs_lin_le hd hρ4            -- a w - b x
  have L3 := abs_lin_le hd hρ3            -- -(a x) + b w
  have L4 := abs_lin_le hd hρ2            -- a x + b w
  have L5 := abs_lin_le hd hρ5            -- a x - b w
  have hρ0 : 0 < w * w + x * x := by
    have := (abs_le.mp L1).1
    nlinarith
  have hρne : w * w + x * x ≠ 0 := ne_of_gt hρ0
  -- s² + c² = 1
  have hsc : s * s + c * c = 1 := by
    have h : (s * s + c * c - 1) * ((w * w + x * x) * (w * w + x * x)) = 0 := by
      linear_combination (s * (w * w + x * x) + 2 * x * w) * hs + (c * (w * w + x * x) + (w * w - x * x)) * hc
    have h2 : (w * w + x * x) * (w * w + x * x) ≠ 0 := mul_ne_zero hρne hρne
    have := (mul_eq_zero.mp h).resolve_right h2
    linarith
  have hs1 : |s| ≤ 1 := abs_le.mpr ⟨by nlinarith [mul_self_nonneg c, mul_self_nonneg (s + 1)],
    by nlinarith [mul_self_nonneg c, mul_self_nonneg (s - 1)]⟩
  have hc1 : |c| ≤ 1 := abs_le.mpr ⟨by nlinarith [mul_self_nonneg s, mul_self_nonneg (c + 1)],
    by nlinarith [mul_self_nonneg s, mul_self_nonneg (c - 1)]⟩
  have h01 : |(1 : ℝ)| ≤ 1 := by norm_num
  have hm1 : |(-1 : ℝ)| ≤ 1 := by norm_num
  have h00 : |(0 : ℝ)| ≤ 1 := by norm_num
  have hr0 : |(0 : ℝ)| ≤ 0.002 := by norm_num
  have hrab : |a * a - b * b| ≤ 0.002 := abs_le.mpr ⟨by nlinarith [mul_self_nonneg a, mul_self_nonneg b],
    by nlinarith [mul_self_nonneg a, mul_self_nonneg b]⟩
  have hr2ab : |2 * a * b| ≤ 0.002 := abs_le.mpr ⟨by nlinarith [mul_self_nonneg (a + b)],
    by nlinarith [mul_self_nonneg (a - b)]⟩
  -- the two identities that remove the division
  have e01 : s - 4 * w * x + 2 * (a * x + b * w) = 2 * c * (a * (-x) + b * w) + s * (a * a + b * b) - 0 := by
    have h : (s - 4 * w * x + 2 * (a * x + b * w) - (2 * c * (a * (-x) + b * w) + s * (a * a + b * b) - 0)) *
        (w * w + x * x) = 0 := by
      linear_combination (-a ^ 2 - b ^ 2 + 1) * hs + (2 * a * x - 2 * b * w) * hc + (-2 * w * x) * hu
    have := (mul_eq_zero.mp h).resolve_right hρne
    linarith
  have e02 : -c + 2 * (w * w - x * x) - 2 * (a * w - b * x) =
      2 * s * (a * (-x) + b * w) + (-c) * (a * a + b * b) - 0 := by
    have h : (-c + 2 * (w * w - x * x) - 2 * (a * w - b * x) -
        (2 * s * (a * (-x) + b * w) + (-c) * (a * a + b * b) - 0)) * (w * w + x * x) = 0 := by
      linear_combination (2 * a * x - 2 * b * w) * hs + (a ^ 2 + b ^ 2 - 1) * hc + (w ^ 2 - x ^ 2) * hu
    have := (mul_eq_zero.mp h).resolve_right hρne
    linarith
  have hc1' : |-c| ≤ 1 := by rwa [abs_neg]
  have hs1' : |-s| ≤ 1 := by rwa [abs_neg]
  refine ⟨?_, ?_, ?_, ?_, ?_, ?_, ?_, ?_, ?_⟩
  · have := bound (k := -1) (k' := 1) (L := a * w + b * x) (d := a * a + b * b) (r := 0) hm1 h01 L1 hd0 hd hr0
    convert this using 2; ring
  · rw [e01]; exact bound hc1 hs1 L3 hd0 hd hr0
  · rw [e02]; exact bound hs1 hc1' L3 hd0 hd hr0
  · have := bound (k := 1) (k' := 0) (L := a * x + b * (-w)) (d := a * a + b * b) (r := 0) h01 h00 L5 hd0 hd hr0
    convert this using 2; ring
  · have : c - 2 * (w * w - x * x) + 2 * (a * w - b * x) - (a * a - b * b) =
        2 * (-s) * (a * (-x) + b * w) + c * (a * a + b * b) - (a * a - b * b) := by linarith [e02]
    rw [this]; exact bound hs1' hc1 L3 hd0 hd hrab
  · have : s - 4 * w * x + 2 * (a * x + b * w) - 2 * a * b =
        2 * c * (a * (-x) + b * w) + s * (a * a + b * b) - 2 * a * b := by linarith [e01]
    rw [this]; exact bound hc1 hs1 L3 hd0 hd hr2ab
  · rw [abs_of_nonneg hd0]; linarith
  · have := bound (k := 1) (k' := 0) (L := a * x + b * w) (d := a * a + b * b) (r := 2 * a * b) h01 h00 L4 hd0 hd hr2ab
    convert this using 2; ring
  · have := bound (k := -1) (k' := 0) (L := a * w + b * (-x)) (d := a * a + b * b) (r := -(a * a - b * b)) hm1 h00 L2 hd0 hd
      (by rwa [abs_neg])
    convert this using 2; ring

end Cg.Gimbal
