import Cgm.Lemmas.RealInst
import Mathlib.Algebra.Order.Floor.Ring
import Mathlib.Analysis.SpecialFunctions.Trigonometric.Basic
import Mathlib.Tactic.Linarith
import Mathlib.Tactic.Positivity
import Mathlib.Tactic.NormNum
/-!
The remaining external scalar parameters of the model instantiated at `ℝ`:

* `FRem ℝ`: the truncating remainder (C `fmod`, Rust `%` on floats, which is exact in IEEE
  arithmetic): `a % T = a - T * trunc (a / T)`; defined and specified (`fremF`) over any
  linearly ordered field with a floor function, so that the same facts apply to the
  driver's `Rat` instance (`Cgm/Props/C13b.lean`);
* `Lits ℝ`: the exact real values of the literals.
-/
set_option linter.unusedSectionVars false
namespace Cg

/-! ## truncating remainder over any ordered field with a floor function -/
section generic
variable {K : Type} [Field K] [LinearOrder K] [IsStrictOrderedRing K] [FloorRing K]

/-- round towards zero -/
def truncF (x : K) : ℤ := if 0 ≤ x then ⌊x⌋ else ⌈x⌉

/-- C `fmod`: `a - T * trunc (a / T)`; as `a / 0 = 0` in Lean, `fremF a 0 = a` -/
def fremF (a T : K) : K := a - T * (truncF (a / T) : K)

theorem truncF_of_nonneg {x : K} (h : 0 ≤ x) : truncF x = ⌊x⌋ := by simp [truncF, h]
theorem truncF_of_neg {x : K} (h : x < 0) : truncF x = ⌈x⌉ := by simp [truncF, not_le.mpr h]

/-- `trunc x` is between `0` and `x`, less than one away from `x` -/
theorem truncF_spec (x : K) :
    (0 ≤ x → 0 ≤ (truncF x : K) ∧ (truncF x : K) ≤ x ∧ x < truncF x + 1) ∧
    (x ≤ 0 → (truncF x : K) ≤ 0 ∧ x ≤ (truncF x : K) ∧ (truncF x : K) < x + 1) := by
  constructor
  · intro h
    rw [truncF_of_nonneg h]
    exact ⟨by exact_mod_cast Int.floor_nonneg.mpr h, Int.floor_le x, Int.lt_floor_add_one x⟩
  · intro h
    rcases h.lt_or_eq with h | h
    · rw [truncF_of_neg h]
      refine ⟨?_, Int.le_ceil x, Int.ceil_lt_add_one x⟩
      have : ⌈x⌉ ≤ 0 := Int.ceil_le.mpr (by simpa using h.le)
      exact_mod_cast this
    · subst h; simp [truncF]

theorem truncF_neg (x : K) : truncF (-x) = -truncF x := by
  rcases lt_trichotomy x 0 with h | h | h
  · rw [truncF_of_neg h, truncF_of_nonneg (by linarith : (0 : K) ≤ -x), Int.floor_neg]
  · subst h; simp [truncF]
  · rw [truncF_of_nonneg h.le, truncF_of_neg (by linarith : -x < 0), Int.ceil_neg]

theorem fremF_zero_right (a : K) : fremF a 0 = a := by simp [fremF]

/-- `a % T = a - k * T` with the integer `k = trunc (a / T)` -/
theorem fremF_eq (a T : K) : fremF a T = a - (truncF (a / T) : K) * T := by
  unfold fremF; ring

/-- for a positive modulus: a non-negative `a` has its remainder in `[0, T)` -/
theorem fremF_of_nonneg {a T : K} (hT : 0 < T) (ha : 0 ≤ a) : 0 ≤ fremF a T ∧ fremF a T < T := by
  obtain ⟨_, h2, h3⟩ := (truncF_spec (a / T)).1 (div_nonneg ha hT.le)
  rw [le_div_iff₀ hT] at h2
  rw [div_lt_iff₀ hT] at h3
  rw [fremF_eq]; constructor <;> nlinarith
/-- for a positive modulus: a non-positive `a` has its remainder in `(-T, 0]` -/
theorem fremF_of_nonpos {a T : K} (hT : 0 < T) (ha : a ≤ 0) : -T < fremF a T ∧ fremF a T ≤ 0 := by
  obtain ⟨_, h2, h3⟩ := (truncF_spec (a / T)).2 (div_nonpos_of_nonpos_of_nonneg ha hT.le)
  rw [div_le_iff₀ hT] at h2
  rw [← sub_lt_iff_lt_add, lt_div_iff₀ hT] at h3
  rw [fremF_eq]; constructor <;> nlinarith

/-- `a % (-T) = a % T` (the sign of the modulus is irrelevant, as for C `fmod`) -/
theorem fremF_neg_right (a T : K) : fremF a (-T) = fremF a T := by
  unfold fremF
  rw [div_neg, truncF_neg]; push_cast; ring
/-- `(-a) % T = -(a % T)` (truncation is symmetric) -/
theorem fremF_neg_left (a T : K) : fremF (-a) T = -fremF a T := by
  unfold fremF
  rw [neg_div, truncF_neg]; push_cast; ring

/-- the specification the exact theorems of C13 assume of `%` (`Cg.C13.FRemSpec`): for `0 < T`,
`a % T = a - k T` for an integer `k`, and `|a % T| < T` -/
theorem fremF_spec (a T : K) (hT : 0 < T) :
    ∃ k : ℤ, fremF a T = a - k * T ∧ |fremF a T| < T := by
  refine ⟨truncF (a / T), fremF_eq a T, ?_⟩
  rw [abs_lt]
  rcases le_total 0 a with ha | ha
  · obtain ⟨h1, h2⟩ := fremF_of_nonneg hT ha
    exact ⟨by linarith, h2⟩
  · obtain ⟨h1, h2⟩ := fremF_of_nonpos hT ha
    exact ⟨h1, by linarith⟩

/-- the remainder has the sign of the dividend (any modulus, also a negative or zero one):
what Rust's `%` on floats guarantees -/
theorem fremF_sign (a T : K) : (0 ≤ a → 0 ≤ fremF a T) ∧ (a ≤ 0 → fremF a T ≤ 0) := by
  rcases lt_trichotomy T 0 with hT | hT | hT
  · have hT' : 0 < -T := by linarith
    rw [← fremF_neg_right]
    exact ⟨fun h => (fremF_of_nonneg hT' h).1, fun h => (fremF_of_nonpos hT' h).2⟩
  · subst hT; simp [fremF_zero_right]
  · exact ⟨fun h => (fremF_of_nonneg hT h).1, fun h => (fremF_of_nonpos hT h).2⟩

/-- `|a % T| < |T|` for every non-zero modulus -/
theorem fremF_abs_lt (a T : K) (hT : T ≠ 0) : |fremF a T| < |T| := by
  rcases lt_or_gt_of_ne hT with h | h
  · obtain ⟨k, _, hk⟩ := fremF_spec a (-T) (by linarith)
    rw [fremF_neg_right] at hk
    rw [abs_of_neg h]; exact hk
  · obtain ⟨k, _, hk⟩ := fremF_spec a T h
    rw [abs_of_pos h]; exact hk

/-- `|a % T| ≤ |a|`: truncation never overshoots -/
theorem fremF_abs_le (a T : K) (hT : 0 < T) : |fremF a T| ≤ |a| := by
  rcases le_total 0 a with ha | ha
  · obtain ⟨h1, _⟩ := fremF_of_nonneg hT ha
    obtain ⟨t0, _, _⟩ := (truncF_spec (a / T)).1 (div_nonneg ha hT.le)
    rw [abs_of_nonneg h1, abs_of_nonneg ha, fremF_eq]; nlinarith
  · obtain ⟨_, h2⟩ := fremF_of_nonpos hT ha
    obtain ⟨t0, _, _⟩ := (truncF_spec (a / T)).2 (div_nonpos_of_nonpos_of_nonneg ha hT.le)
    rw [abs_of_nonpos h2, abs_of_nonpos ha, fremF_eq]; nlinarith
end generic

/-! ## the instance at `ℝ` -/
noncomputable instance instFRemReal : FRem ℝ := ⟨fremF⟩

@[simp] theorem frem_real (a T : ℝ) : FRem.frem a T = fremF a T := rfl

/-- `%` over the reals meets the specification the exact theorems of C13 assume
(`Cg.C13.FRemSpec ℝ`, stated here without the definition) -/
theorem fremR_spec (a T : ℝ) (hT : 0 < T) :
    ∃ k : ℤ, (FRem.frem a T : ℝ) = a - k * T ∧ |(FRem.frem a T : ℝ)| < T := fremF_spec a T hT
/-- the remainder has the sign of the dividend, whatever the modulus -/
theorem fremR_sign (a T : ℝ) :
    (0 ≤ a → 0 ≤ (FRem.frem a T : ℝ)) ∧ (a ≤ 0 → (FRem.frem a T : ℝ) ≤ 0) := fremF_sign a T
theorem fremR_abs_lt (a T : ℝ) (hT : T ≠ 0) : |(FRem.frem a T : ℝ)| < |T| := fremF_abs_lt a T hT
theorem fremR_abs_le (a T : ℝ) (hT : 0 < T) : |(FRem.frem a T : ℝ)| ≤ |a| := fremF_abs_le a T hT
theorem fremR_zero_right (a : ℝ) : (FRem.frem a 0 : ℝ) = a := fremF_zero_right a

/-! ## literals -/

/-- the exact real values of the `f64` literals -/
noncomputable instance instLitsReal : Lits ℝ where
  thr := 0.9995
  sig := 0.499
  radFull := 2 * Real.pi
  deg2rad := Real.pi / 180
  rad2deg := 180 / Real.pi
  matEps := 1e-6

@[simp] theorem lits_thr : (Lits.thr : ℝ) = 0.9995 := rfl
@[simp] theorem lits_sig : (Lits.sig : ℝ) = 0.499 := rfl
@[simp] theorem lits_radFull : (Lits.radFull : ℝ) = 2 * Real.pi := rfl
@[simp] theorem lits_deg2rad : (Lits.deg2rad : ℝ) = Real.pi / 180 := rfl
@[simp] theorem lits_rad2deg : (Lits.rad2deg : ℝ) = 180 / Real.pi := rfl
@[simp] theorem lits_matEps : (Lits.matEps : ℝ) = 1e-6 := rfl

theorem lits_radFull_pos : 0 < (Lits.radFull : ℝ) := by
  rw [lits_radFull]; have := Real.pi_pos; linarith
theorem lits_deg2rad_mul_rad2deg : (Lits.deg2rad : ℝ) * Lits.rad2deg = 1 := by
  rw [lits_deg2rad, lits_rad2deg]; have := Real.pi_ne_zero; field_simp
theorem lits_thr_bounds : 0 < (Lits.thr : ℝ) ∧ (Lits.thr : ℝ) < 1 := by
  rw [lits_thr]; constructor <;> norm_num
theorem lits_sig_bounds : 0 < (Lits.sig : ℝ) ∧ (Lits.sig : ℝ) < 1 / 2 := by
  rw [lits_sig]; constructor <;> norm_num
theorem lits_matEps_pos : 0 < (Lits.matEps : ℝ) := by
  rw [lits_matEps]; norm_num

end Cg
