import Mathlib.LinearAlgebra.Matrix.Determinant.Basic
import Mathlib.LinearAlgebra.Matrix.Notation
import Mathlib.LinearAlgebra.Matrix.Trace
import Mathlib.Tactic.FinCases
import Cgm.Lemmas.Tac
/-!
Bridge from the model's column-major structures to Mathlib's `Matrix (Fin n) (Fin n) K`
(`toMatrix m i j` = row `i`, column `j`) and `Fin n → K` vectors.
-/
set_option linter.unusedSectionVars false
namespace Cg
open Matrix
variable {K : Type} [CommRing K]

def V2.toFun (v : V2 K) : Fin 2 → K := ![v.x, v.y]
def V3.toFun (v : V3 K) : Fin 3 → K := ![v.x, v.y, v.z]
def V4.toFun (v : V4 K) : Fin 4 → K := ![v.x, v.y, v.z, v.w]
def M2.toMatrix (m : M2 K) : Matrix (Fin 2) (Fin 2) K :=
  !![m.x.x, m.y.x; m.x.y, m.y.y]
def M3.toMatrix (m : M3 K) : Matrix (Fin 3) (Fin 3) K :=
  !![m.x.x, m.y.x, m.z.x; m.x.y, m.y.y, m.z.y; m.x.z, m.y.z, m.z.z]
def M4.toMatrix (m : M4 K) : Matrix (Fin 4) (Fin 4) K :=
  !![m.x.x, m.y.x, m.z.x, m.w.x; m.x.y, m.y.y, m.z.y, m.w.y;
     m.x.z, m.y.z, m.z.z, m.w.z; m.x.w, m.y.w, m.z.w, m.w.w]

theorem V2.toFun_inj {u v : V2 K} (h : u.toFun = v.toFun) : u = v := by
  have h0 := congrFun h 0; have h1 := congrFun h 1
  simp [V2.toFun] at h0 h1; ext <;> assumption
theorem V3.toFun_inj {u v : V3 K} (h : u.toFun = v.toFun) : u = v := by
  have h0 := congrFun h 0; have h1 := congrFun h 1; have h2 := congrFun h 2
  simp [V3.toFun] at h0 h1 h2; ext <;> assumption
theorem V4.toFun_inj {u v : V4 K} (h : u.toFun = v.toFun) : u = v := by
  have h0 := congrFun h 0; have h1 := congrFun h 1; have h2 := congrFun h 2; have h3 := congrFun h 3
  simp [V4.toFun] at h0 h1 h2 h3; ext <;> assumption

theorem M2.toMatrix_inj {a b : M2 K} (h : a.toMatrix = b.toMatrix) : a = b := by
  have e : ∀ i j, a.toMatrix i j = b.toMatrix i j := fun i j => by rw [h]
  have h00 := e 0 0; have h01 := e 0 1; have h10 := e 1 0; have h11 := e 1 1
  simp [M2.toMatrix] at h00 h01 h10 h11
  ext <;> assumption
theorem M3.toMatrix_inj {a b : M3 K} (h : a.toMatrix = b.toMatrix) : a = b := by
  have e : ∀ i j, a.toMatrix i j = b.toMatrix i j := fun i j => by rw [h]
  have h00 := e 0 0; have h01 := e 0 1; have h02 := e 0 2
  have h10 := e 1 0; have h11 := e 1 1; have h12 := e 1 2
  have h20 := e 2 0; have h21 := e 2 1; have h22 := e 2 2
  simp [M3.toMatrix] at h00 h01 h02 h10 h11 h12 h20 h21 h22
  ext <;> assumption
theorem M4.toMatrix_inj {a b : M4 K} (h : a.toMatrix = b.toMatrix) : a = b := by
  have e : ∀ i j, a.toMatrix i j = b.toMatrix i j := fun i j => by rw [h]
  have h00 := e 0 0; have h01 := e 0 1; have h02 := e 0 2; have h03 := e 0 3
  have h10 := e 1 0; have h11 := e 1 1; have h12 := e 1 2; have h13 := e 1 3
  have h20 := e 2 0; have h21 := e 2 1; have h22 := e 2 2; have h23 := e 2 3
  have h30 := e 3 0; have h31 := e 3 1; have h32 := e 3 2; have h33 := e 3 3
  simp [M4.toMatrix] at h00 h01 h02 h03 h10 h11 h12 h13 h20 h21 h22 h23 h30 h31 h32 h33
  ext <;> assumption

/-- entry-wise proof of a matrix equation between images of the bridge -/
macro "mat_entries" : tactic =>
  `(tactic| (ext i j; fin_cases i <;> fin_cases j <;>
      simp [M2.toMatrix, M3.toMatrix, M4.toMatrix, Matrix.mul_apply, Fin.sum_univ_succ,
            Matrix.one_apply, Matrix.transpose_apply] <;> ring))
macro "vec_entries" : tactic =>
  `(tactic| (ext i; fin_cases i <;>
      simp [V2.toFun, V3.toFun, V4.toFun, M2.toMatrix, M3.toMatrix, M4.toMatrix,
            Matrix.mulVec, dotProduct, Fin.sum_univ_succ] <;> ring))

theorem M2.toMatrix_mul (a b : M2 K) : (a * b).toMatrix = a.toMatrix * b.toMatrix := by mat_entries
theorem M3.toMatrix_mul (a b : M3 K) : (a * b).toMatrix = a.toMatrix * b.toMatrix := by mat_entries
theorem M4.toMatrix_mul (a b : M4 K) : (a * b).toMatrix = a.toMatrix * b.toMatrix := by mat_entries
theorem M2.toMatrix_add (a b : M2 K) : (a + b).toMatrix = a.toMatrix + b.toMatrix := by mat_entries
theorem M3.toMatrix_add (a b : M3 K) : (a + b).toMatrix = a.toMatrix + b.toMatrix := by mat_entries
theorem M4.toMatrix_add (a b : M4 K) : (a + b).toMatrix = a.toMatrix + b.toMatrix := by mat_entries
theorem M2.toMatrix_sub (a b : M2 K) : (a - b).toMatrix = a.toMatrix - b.toMatrix := by mat_entries
theorem M3.toMatrix_sub (a b : M3 K) : (a - b).toMatrix = a.toMatrix - b.toMatrix := by mat_entries
theorem M4.toMatrix_sub (a b : M4 K) : (a - b).toMatrix = a.toMatrix - b.toMatrix := by mat_entries
theorem M2.toMatrix_neg (a : M2 K) : (-a).toMatrix = -a.toMatrix := by mat_entries
theorem M3.toMatrix_neg (a : M3 K) : (-a).toMatrix = -a.toMatrix := by mat_entries
theorem M4.toMatrix_neg (a : M4 K) : (-a).toMatrix = -a.toMatrix := by mat_entries
theorem M2.toMatrix_smul (a : M2 K) (s : K) : (a * s).toMatrix = s • a.toMatrix := by mat_entries
theorem M3.toMatrix_smul (a : M3 K) (s : K) : (a * s).toMatrix = s • a.toMatrix := by mat_entries
theorem M4.toMatrix_smul (a : M4 K) (s : K) : (a * s).toMatrix = s • a.toMatrix := by mat_entries
theorem M2.toMatrix_one : (M2.one : M2 K).toMatrix = 1 := by mat_entries
theorem M3.toMatrix_one : (M3.one : M3 K).toMatrix = 1 := by mat_entries
theorem M4.toMatrix_one : (M4.one : M4 K).toMatrix = 1 := by mat_entries
theorem M2.toMatrix_zero : (M2.zero : M2 K).toMatrix = 0 := by mat_entries
theorem M3.toMatrix_zero : (M3.zero : M3 K).toMatrix = 0 := by mat_entries
theorem M4.toMatrix_zero : (M4.zero : M4 K).toMatrix = 0 := by mat_entries
theorem M2.toMatrix_transpose (a : M2 K) : a.transpose.toMatrix = a.toMatrixᵀ := by mat_entries
theorem M3.toMatrix_transpose (a : M3 K) : a.transpose.toMatrix = a.toMatrixᵀ := by mat_entries
theorem M4.toMatrix_transpose (a : M4 K) : a.transpose.toMatrix = a.toMatrixᵀ := by mat_entries
theorem M2.toFun_mulVec (a : M2 K) (v : V2 K) : (a * v).toFun = a.toMatrix *ᵥ v.toFun := by
  vec_entries
theorem M3.toFun_mulVec (a : M3 K) (v : V3 K) : (a * v).toFun = a.toMatrix *ᵥ v.toFun := by
  vec_entries
theorem M4.toFun_mulVec (a : M4 K) (v : V4 K) : (a * v).toFun = a.toMatrix *ᵥ v.toFun := by
  vec_entries

/-- the model's determinants are Mathlib's (Leibniz) determinant -/
theorem M2.det_eq (m : M2 K) : m.det = m.toMatrix.det := by
  simp [M2.toMatrix, Matrix.det_fin_two] <;> ring
theorem M3.det_eq (m : M3 K) : m.det = m.toMatrix.det := by
  simp [M3.toMatrix, Matrix.det_fin_three] <;> ring

theorem M4.det_eq (m : M4 K) : m.det = m.toMatrix.det := by
  rw [Matrix.det_succ_row_zero]
  simp [M4.det, M4.detSubProc, M4.flat, M4.toMatrix, Fin.sum_univ_succ, Matrix.det_fin_three,
    Matrix.submatrix, Fin.succAbove]
  ring

end Cg
