import Cgm.Lemmas.TraceBase
/-!
# Layer T, index-taking operations: what a kernel traced with index arguments is compared with

The model's index-taking functions (`swapRows?`, `row?`, …) return an `Option`; `none` is the code's panic
(the driver tables use the same reading: `ofPanic` in `Cgm/Driver/Core.lean`).  An obligation about a kernel traced
at the index tuple `(a, b)` says `kernel (envL m.toList) = Tr.ofPanic ((m.swapRows? a b).map M3.toList)`:
in range the outputs are the model's, out of range both panic.
-/
namespace Cg
variable {K : Type}
/-- a model `none` is a panic of the code, `some l` a normal return of `l`; no comparison is made on the way -/
def Tr.ofPanic (o : Option (List K)) : Tr K :=
  match o with
  | some l => .okS l
  | none => .panicG []
@[simp] theorem Tr.ofPanic_some (l : List K) : Tr.ofPanic (some l) = .okS l := rfl
@[simp] theorem Tr.ofPanic_none : Tr.ofPanic (none : Option (List K)) = .panicG [] := rfl
theorem Tr.ofPanic_res_ok (o : Option (List K)) : (Tr.ofPanic o).res = .ok ↔ o.isSome := by
  cases o <;> simp [Tr.okS, Tr.panicG]
theorem Tr.ofPanic_res_panic (o : Option (List K)) : (Tr.ofPanic o).res = .panic ↔ o = none := by
  cases o <;> simp [Tr.okS, Tr.panicG]

/-- unfold the generated kernel, the model's index-taking function at the literal indices, and both flat lists;
no arithmetic is involved, so `simp` closes the goal -/
macro "tr_idx" : tactic =>
  `(tactic| (simp [envL, Tr.okS, Tr.panicG, Tr.ofPanic,
      M2.swapRows?, M3.swapRows?, M4.swapRows?, M2.swapColumns?, M3.swapColumns?, M4.swapColumns?,
      M2.swapElements?, M3.swapElements?, M4.swapElements?, M2.replaceCol?, M3.replaceCol?, M4.replaceCol?,
      M2.transposeSelf?, M3.transposeSelf?, M4.transposeSelf?, M2.row?, M3.row?, M4.row?,
      M2.col?, M3.col?, M4.col?, M2.cols, M3.cols, M4.cols, M2.get?, M3.get?, M4.get?, M2.set?, M3.set?, M4.set?,
      M2.setCol?, M3.setCol?, M4.setCol?, V2.swapElements?, V3.swapElements?, V4.swapElements?,
      V2.get?, V3.get?, V4.get?, V2.set?, V3.set?, V4.set?,
      V2.toList, V3.toList, V4.toList, M2.toList, M3.toList, M4.toList,
      M2.transpose, M3.transpose, M4.transpose, M2.new, M3.new, M4.new,
      M2.row0, M2.row1, M3.row0, M3.row1, M3.row2, M4.row0, M4.row1, M4.row2, M4.row3]))
end Cg
