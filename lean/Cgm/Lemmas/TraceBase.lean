import Cgm.Lemmas.Tac
import Cgm.Lemmas.QuatBridge
/-!
# Layer T: what a traced execution of the real code is compared with

`cgverif trace` runs the real cgmath function, instantiated at a recording scalar, on symbolic
inputs `v 0, v 1, …` and prints `Cgm/Gen/Cxx.lean`: for each kernel a value of `Tr K` holding the
outputs as expressions in `v` and every comparison the code made on the way (`G`), with the
outcome it had on the shadow input that selected the path.  `Cgm/Trace/Cxx.lean` states what each
must be: the outputs are the model's outputs, the comparisons are the model's branch conditions.
-/
namespace Cg

/-- one comparison executed by the code -/
inductive G (K : Type) where
  | eq (a b : K) (r : Bool)
  | lt (a b : K) (r : Bool)
  | le (a b : K) (r : Bool)
  | absDiff (a b e : K) (r : Bool)
  | rel (a b e m : K) (r : Bool)
  | ulps (a b e : K) (u : Nat) (r : Bool)
  /-- three-way comparison (the derived `PartialOrd` of `Rad`/`Deg` goes through `partial_cmp`) -/
  | cmp (a b : K) (r : Ordering)

inductive TrRes where
  | ok | none | panic
  deriving DecidableEq

structure Tr (K : Type) where
  res : TrRes
  out : List K
  bools : List Bool
  guards : List (G K)

/-- finish: whatever `simp` left is a conjunction of field identities -/
macro "tr_fin" : tactic => `(tactic| all_goals ((repeat' apply And.intro) <;> ring))
end Cg

namespace Cg
variable {K : Type}
/-- the symbolic inputs: the op line's scalar arguments, in order -/
def envL [OfNat K 0] (l : List K) (i : Nat) : K := l.getD i 0
def Tr.okS (l : List K) : Tr K := ⟨.ok, l, [], []⟩
def Tr.okG (l : List K) (g : List (G K)) : Tr K := ⟨.ok, l, [], g⟩
def Tr.noneG (g : List (G K)) : Tr K := ⟨.none, [], [], g⟩
def Tr.panicG (g : List (G K)) : Tr K := ⟨.panic, [], [], g⟩

/-- unfold the generated kernel and the model, split the lists, decide the field equalities -/
macro "tr_auto" : tactic =>
  `(tactic| (simp [envL, Tr.okS, Tr.okG, Tr.noneG, Tr.panicG, V1.toList, V2.toList, V3.toList, V4.toList,
      P1.toList, P2.toList, P3.toList, M2.toList, M3.toList, M4.toList, Quat.toList] <;>
    (repeat' apply And.intro) <;> ring))
/-- finish: whatever `simp` left is a conjunction of field identities -/
macro "tr_fin" : tactic => `(tactic| all_goals ((repeat' apply And.intro) <;> ring))
end Cg

namespace Cg
/-- like `tr_auto` for kernels with transcendental atoms: the arguments of `sqrt`, `sin`, … are
normalised too (`ring_nf` works inside atoms, `ring` does not) -/
macro "tr_auto_nf" : tactic =>
  `(tactic| (simp [envL, Tr.okS, Tr.okG, Tr.noneG, Tr.panicG, V1.toList, V2.toList, V3.toList, V4.toList,
      P1.toList, P2.toList, P3.toList, M2.toList, M3.toList, M4.toList, Quat.toList] <;>
    (repeat' apply And.intro) <;> ring_nf))
end Cg

namespace Cg
/-- for the generated obligations (`Trace/*Auto.lean`): whichever of the two normalisers closes it -/
macro "tr_any" : tactic => `(tactic| first | (tr_auto; done) | (tr_auto_nf; done))
end Cg
