import Mathlib.Algebra.Quaternion
import Cgm.Lemmas.MatBridge
import Cgm.Model.Transform
/-!
Bridge from the model's `Quat K` to Mathlib's Hamilton quaternions `ℍ[K]`, plus
the simp set for the quaternion/rotation part of the model.
-/
set_option linter.unusedSectionVars false
namespace Cg
open Quaternion
variable {K : Type} [CommRing K]

attribute [simp] Quat.fromSv Quat.new Quat.conjugate Quat.mul Quat.dot Quat.magnitude2
  Quat.distance2 Quat.lerp Quat.invert Quat.zero Quat.one Quat.mulVec Quat.rotateVector
  Quat.rotatePoint Quat.toM3 Quat.toM4

@[simp] theorem two_eq {R : Type} [Ring R] : (two : R) = 2 := by simp [two]
@[simp] theorem half_eq {R : Type} [DivisionRing R] : (half : R) = 1 / 2 := by simp [half]

def Quat.toH (q : Quat K) : ℍ[K] := ⟨q.s, q.v.x, q.v.y, q.v.z⟩

@[simp] theorem Quat.toH_re (q : Quat K) : q.toH.re = q.s := rfl
@[simp] theorem Quat.toH_imI (q : Quat K) : q.toH.imI = q.v.x := rfl
@[simp] theorem Quat.toH_imJ (q : Quat K) : q.toH.imJ = q.v.y := rfl
@[simp] theorem Quat.toH_imK (q : Quat K) : q.toH.imK = q.v.z := rfl

theorem Quat.toH_inj {p q : Quat K} (h : p.toH = q.toH) : p = q := by
  have h1 := congrArg QuaternionAlgebra.re h
  have h2 := congrArg QuaternionAlgebra.imI h
  have h3 := congrArg QuaternionAlgebra.imJ h
  have h4 := congrArg QuaternionAlgebra.imK h
  simp at h1 h2 h3 h4
  ext <;> assumption

theorem Quat.toH_mul (p q : Quat K) : (p * q).toH = p.toH * q.toH := by
  ext <;> simp [Quaternion.re_mul, Quaternion.imI_mul, Quaternion.imJ_mul, Quaternion.imK_mul] <;> ring
theorem Quat.toH_add (p q : Quat K) : (p + q).toH = p.toH + q.toH := by
  ext <;> simp
theorem Quat.toH_sub (p q : Quat K) : (p - q).toH = p.toH - q.toH := by
  ext <;> simp
theorem Quat.toH_neg (p : Quat K) : (-p).toH = -p.toH := by
  ext <;> simp
theorem Quat.toH_one : (Quat.one : Quat K).toH = 1 := by
  ext <;> simp
theorem Quat.toH_zero : (Quat.zero : Quat K).toH = 0 := by
  ext <;> simp
theorem Quat.toH_conj (p : Quat K) : p.conjugate.toH = star p.toH := by
  ext <;> simp
theorem Quat.toH_smul (p : Quat K) (k : K) : (p * k).toH = k • p.toH := by
  ext <;> simp <;> ring
theorem Quat.magnitude2_eq_normSq (p : Quat K) : p.magnitude2 = Quaternion.normSq p.toH := by
  rw [Quaternion.normSq_def']; simp; ring

end Cg
