import Mathlib.Data.Real.Basic
import Mathlib.Tactic.NormNum
import Mathlib.Tactic.Positivity
import Mathlib.Tactic.Ring
import Cgm.Lemmas.ApproxSpec
/-!
# An `Approx ℝ` instance satisfying `ApproxSpec`

The exact-scalar reading of the `approx` crate's float implementations, the same formulas
as the harness's `Approx Rat` instance (Cgm/Driver/Rt.lean), with
`eps = max_relative = 2^-52` (`f64::EPSILON`) and `max_ulps = 4`:

* `abs_diff_eq a b e  := |a - b| ≤ e`
* `relative_eq a b e m := |a - b| ≤ e ∨ |a - b| ≤ max |a| |b| * m`
* `ulps_eq a b e u := |a - b| ≤ e ∨ |a - b| ≤ max |a| |b| * 2^-52 * u`
  (`u` units in the last place of the larger operand)

It shows that `ApproxLaws ℝ` / `ApproxSpec ℝ δ` are satisfiable for every `δ ≥ 2^-52`, in
particular for `δ = 1e-6`.
-/
namespace Cg

/-- `f64::EPSILON = 2^-52` -/
noncomputable def eps52R : ℝ := 1 / 4503599627370496

theorem eps52R_eq : eps52R = (2 : ℝ)⁻¹ ^ 52 := by unfold eps52R; norm_num
theorem eps52R_pos : 0 < eps52R := by unfold eps52R; norm_num
theorem eps52R_le : eps52R ≤ 1e-6 := by unfold eps52R; norm_num

/-- the instance is *scoped* (`open scoped Cg.RealApprox`), so that importing this file does not
silently fix the `approx` relations of theorems stated over `ℝ` -/
@[instance_reducible] noncomputable def instApproxReal : Approx ℝ where
  absDiffEq a b e := decide (|a - b| ≤ e)
  relEq a b e m := decide (|a - b| ≤ e ∨ |a - b| ≤ max |a| |b| * m)
  ulpsEq a b e u := decide (|a - b| ≤ e ∨ |a - b| ≤ max |a| |b| * eps52R * (u : ℝ))
  eps := eps52R
  maxRel := eps52R
  maxUlps := 4

namespace RealApprox
attribute [scoped instance] instApproxReal
end RealApprox
open scoped RealApprox

@[simp] theorem real_absDiffEq (a b e : ℝ) : Approx.absDiffEq a b e = true ↔ |a - b| ≤ e := by
  simp [Approx.absDiffEq]
@[simp] theorem real_relEq (a b e m : ℝ) :
    Approx.relEq a b e m = true ↔ (|a - b| ≤ e ∨ |a - b| ≤ max |a| |b| * m) := by
  simp [Approx.relEq]
@[simp] theorem real_ulpsEq (a b e : ℝ) (u : Nat) :
    Approx.ulpsEq a b e u = true ↔ (|a - b| ≤ e ∨ |a - b| ≤ max |a| |b| * eps52R * (u : ℝ)) := by
  simp [Approx.ulpsEq]
@[simp] theorem real_eps : (Approx.eps : ℝ) = eps52R := rfl
@[simp] theorem real_maxRel : (Approx.maxRel : ℝ) = eps52R := rfl
@[simp] theorem real_maxUlps : Approx.maxUlps ℝ = 4 := rfl

/-- `abs_diff_eq!(x, y)` over the reals -/
theorem real_absDiffEqD (x y : ℝ) : absDiffEqD x y = true ↔ |x - y| ≤ eps52R := by
  simp [absDiffEqD]
/-- `relative_eq!(x, y)` over the reals -/
theorem real_relEqD (x y : ℝ) :
    Approx.relEq x y (Approx.eps : ℝ) (Approx.maxRel : ℝ) = true ↔
      (|x - y| ≤ eps52R ∨ |x - y| ≤ max |x| |y| * eps52R) := by
  simp
/-- `ulps_eq!(x, y)` over the reals -/
theorem real_ulpsEqD (x y : ℝ) :
    ulpsEqD x y = true ↔ (|x - y| ≤ eps52R ∨ |x - y| ≤ max |x| |y| * eps52R * 4) := by
  simp [ulpsEqD]
/-- `ulps_eq!(x, 0)` over the reals is `|x| ≤ 2^-52`: four units in the last place of `x`
are less than `|x|` -/
theorem real_ulpsEqD_zero (x : ℝ) : ulpsEqD x 0 = true ↔ |x| ≤ eps52R := by
  rw [real_ulpsEqD]
  constructor
  · rintro (h | h)
    · simpa using h
    · have hx : max |x| |(0 : ℝ)| = |x| := by simp
      rw [hx, sub_zero] at h
      have h0 : 0 ≤ |x| := abs_nonneg x
      have : |x| * eps52R * 4 ≤ |x| * (1 / 2) := by
        have : eps52R * 4 ≤ 1 / 2 := by unfold eps52R; norm_num
        nlinarith
      have hz : |x| ≤ 0 := by linarith
      exact le_trans hz eps52R_pos.le
  · intro h
    left; simpa using h

theorem realApproxLaws : ApproxLaws ℝ where
  eps_nonneg := eps52R_pos.le
  maxRel_nonneg := eps52R_pos.le
  absDiffEq_refl := fun x e he => by simpa using he
  relEq_refl := fun x e m he _ => by simp [he]
  ulpsEq_refl := fun x e u he => by simp [he]
  absDiffEq_symm := fun x y e => by
    rw [Bool.eq_iff_iff]; simp [abs_sub_comm x y]
  relEq_symm := fun x y e m => by
    rw [Bool.eq_iff_iff]; simp [abs_sub_comm x y, max_comm |x| |y|]
  ulpsEq_symm := fun x y e u => by
    rw [Bool.eq_iff_iff]; simp [abs_sub_comm x y, max_comm |x| |y|]
  absDiffEq_iff := fun x y e => real_absDiffEq x y e
  relEq_of_absDiffEq := fun x y e m h => by
    rw [real_absDiffEq] at h; simp [h]
  ulpsEq_of_absDiffEq := fun x y e u h => by
    rw [real_absDiffEq] at h; simp [h]

/-- the instance meets the specification with the sharp bound `δ = eps` ... -/
theorem realApproxSpec_eps : ApproxSpec ℝ eps52R where
  toApproxLaws := realApproxLaws
  ulpsEqD_zero_le := fun x h => (real_ulpsEqD_zero x).mp h
  ulpsEqD_zero_of_le := fun x h => (real_ulpsEqD_zero x).mpr h
/-- ... hence with every larger one, in particular the property's `1e-6` -/
theorem realApproxSpec {δ : ℝ} (h : eps52R ≤ δ) : ApproxSpec ℝ δ := realApproxSpec_eps.mono h
theorem realApproxSpec_1em6 : ApproxSpec ℝ 1e-6 := realApproxSpec eps52R_le

/-- the relations are not equivalences: `abs_diff_eq!` is not transitive (so no such law
belongs in `ApproxLaws`) -/
example : absDiffEqD (0 : ℝ) eps52R = true ∧ absDiffEqD eps52R (2 * eps52R) = true ∧
    absDiffEqD (0 : ℝ) (2 * eps52R) = false := by
  have hp := eps52R_pos
  refine ⟨?_, ?_, ?_⟩
  · rw [real_absDiffEqD, zero_sub, abs_neg, abs_of_pos hp]
  · rw [real_absDiffEqD, show eps52R - 2 * eps52R = -eps52R by ring, abs_neg, abs_of_pos hp]
  · rw [← Bool.not_eq_true, real_absDiffEqD, zero_sub, abs_neg, abs_of_pos (by linarith)]
    linarith

end Cg
