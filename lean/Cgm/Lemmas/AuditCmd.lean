import Lean
/-!
`#audit_namespace Cg.C03` lists every theorem declared under the namespace and
the axioms it depends on (same information as `#print axioms`, for all of them).
-/
open Lean Elab Command

elab "#audit_namespace " ns:ident : command => do
  let env ← getEnv
  let nsName := ns.getId
  let mut names : Array Name := #[]
  for (n, ci) in env.constants.toList do
    if nsName.isPrefixOf n && !n.isInternalDetail then
      if let .thmInfo _ := ci then
        names := names.push n
  let sorted := names.qsort (fun a b => a.toString < b.toString)
  let mut msg := s!"AUDIT namespace {nsName}: {sorted.size} theorems\n"
  for n in sorted do
    let axs ← liftCoreM (collectAxioms n)
    let axs := axs.qsort (fun a b => a.toString < b.toString)
    msg := msg ++ s!"THEOREM {n} AXIOMS {axs.toList}\n"
  logInfo msg
